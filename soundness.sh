#!/bin/bash
# Soundness run: every check's quick tier at several VERIF_SEED values, optionally with the machine busy.
# usage: ./soundness.sh "1 2 3" [busy]
cd "$(dirname "$0")"
seeds=${1:-"1 2 3"}
if [ "$2" = "busy" ]; then
  for i in $(seq 1 16); do (while :; do :; done) & done
  trap 'kill $(jobs -p) 2>/dev/null' EXIT
fi
for s in $seeds; do
  for id in C01 C02 C03 C04 C05 C06 C07 C08 C09 C10 C11 C12 C13 C14 C15 C16 C17 C18 C19; do
    out=$(VERIF_SEED=$s ./verif check $id quick 2>&1); rc=$?
    echo "seed=$s $id rc=$rc $(echo "$out" | grep -c '^VIOLATION') violations: $(echo "$out" | grep "quick:" | tail -1)"
    if [ $rc -ne 0 ]; then echo "$out" | tail -15; fi
  done
done
