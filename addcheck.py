#!/usr/bin/env python3
"""usage: addcheck.py <ID> <json-file>  — json has keys: level, assumptions, jobs, text, design_ref, note, technique"""
import json, sys, pprint
pid, path = sys.argv[1], sys.argv[2]
d = json.load(open(path))
for fname, keys in (("checks_table.py", ("level", "assumptions", "jobs")), ("manifest_text.py", ("text", "design_ref", "note", "technique"))):
    s = open(fname).read().rstrip()
    assert s.endswith("}")
    s = s[:-1].rstrip()
    entry = {k: d[k] for k in keys}
    body = pprint.pformat(entry, indent=1, width=160, sort_dicts=False)
    s += "\n    %r: %s,\n}\n" % (pid, body)
    open(fname, "w").write(s)
print("added", pid)
