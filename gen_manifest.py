#!/usr/bin/env python3
"""Regenerates MANIFEST.json from checks_table.py + manifest_text.py."""
import json, os, subprocess, sys
ROOT = os.path.dirname(os.path.abspath(__file__))
sys.path.insert(0, ROOT)
from checks_table import CHECKS
from manifest_text import TEXT, NOT_YET

props = [json.loads(l)["id"] for l in open(os.path.join(ROOT, "properties.jsonl"))]
hook_commits = []
try:
    out = subprocess.run(["git", "-C", "/repo", "log", "--format=%H %s"], stdout=subprocess.PIPE, text=True).stdout
    for line in out.splitlines():
        h, s = line.split(" ", 1)
        if s.startswith("verif-hook:"):
            hook_commits.append(h)
except Exception:
    pass
m = {
    "version": 1,
    "setup_cmd": "./verif setup",
    "hooks": {
        "guard": "verif",
        "enable": "-tags verif (Go build tag; every check builds /repo with it)",
        "baseline_off_cmd": "cd /repo && GOFLAGS=-mod=mod GOPROXY=off go test -json -vet=off -count=1 -timeout 25m ./...",
        "source_commits": hook_commits,
        "add_only": True,
    },
    "engines": [
        {"name": "verif-driver", "path": "/verif/verif", "serves_properties": sorted(CHECKS), "kind_free_text": "python driver: builds the Go harness against /repo's working tree, shards rapid runs over 16 cores, merges statistics into evidence, prints VIOLATION / KNOWN-FINDING lines"},
        {"name": "harness", "path": "/verif/harness", "serves_properties": sorted(CHECKS), "kind_free_text": "Go module (rapid v1.3.0 property-based tests, go1.26.8 testing/synctest bubbles, in-memory transports, independent reference codec)"},
    ],
    "checks": [],
    "not_applicable": [],
    "notes": "Every check is property-based testing / fuzzing: generated inputs, histories or fault plans against an explicit oracle; failures shrink to a JSON replay file. Exit 2 = inconclusive (never a violation).",
}
for pid in props:
    if pid in CHECKS and pid in TEXT:
        t = TEXT[pid]
        m["checks"].append({
            "property_id": pid,
            "quick_cmd": "./verif check %s quick" % pid,
            "thorough_cmd": "./verif check %s thorough" % pid,
            "evidence_file": "/verif/evidence/%s.json" % pid,
            "replay_cmd_template": "./verif replay %s {path}" % pid,
            "engine": "verif-driver",
            "level_claimed": {"category": CHECKS[pid]["level"], "text": t["text"], "design_ref": t["design_ref"]},
            "level_note": t["note"],
            "technique": t["technique"],
        })
    else:
        m["not_applicable"].append({"property_id": pid, "reason": NOT_YET.get(pid, "check not built yet in this session (property-based design exists in DESIGN.md §5); not claimed until its check runs clean")})
json.dump(m, open(os.path.join(ROOT, "MANIFEST.json"), "w"), indent=1)
print("MANIFEST.json: %d checks, %d not_applicable" % (len(m["checks"]), len(m["not_applicable"])))
