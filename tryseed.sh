#!/bin/bash
# usage: tryseed.sh <seeded-name> [tier]  — apply one seeded patch to /repo, run its property's check, restore /repo
d=$1; tier=${2:-quick}
pid=$(python3 -c "import json;print(json.load(open('/verif/seeded/$d/meta.json'))['property'])")
[ -z "$(git -C /repo status --porcelain)" ] || { echo "/repo not clean"; exit 2; }
git -C /repo apply /verif/seeded/$d/patch.diff || exit 2
(cd /verif && VERIF_EVIDENCE_DIR=/verif/.run/evidence-mutated ./verif check $pid $tier | grep -v "^built" | cut -c1-700 | tail -${LINES_OUT:-4})
git -C /repo checkout -- .
