"""Per-property MANIFEST wording."""
NOT_YET = {}
TEXT = {
    "C01": {
        "text": "Exploration: rapid generates configurations (3 protocols × 2 codecs × 4 RPC kinds × compression sets/thresholds) and message sequences with zero-valued messages forced at arbitrary positions and sizes straddling the 512 B pool seed / thresholds / 64 KiB / 1 MiB (8 MiB in thorough); the oracle is the reference model 'received list == sent list, then clean end' in both directions. No proof of absence; sequences up to the stated lengths only.",
        "design_ref": "DESIGN.md §5 C01",
        "note": "Trusted: memnet.Mem / net/http (PipeNet) as carriers, google.golang.org/protobuf equality, the harness's deterministic payload function. Custom user codecs are outside the domain.",
        "technique": "property-based testing (rapid): model-based round-trip over generated message sequences and configurations, poisoned buffer pool (tag verif)",
    },
}
