"""Per-property MANIFEST wording."""
NOT_YET = {}
TEXT = {
    "C01": {
        "text": "Exploration: rapid generates configurations (3 protocols × 2 codecs × 4 RPC kinds × compression sets/thresholds) and message sequences with zero-valued messages forced at arbitrary positions and sizes straddling the 512 B pool seed / thresholds / 64 KiB / 1 MiB (8 MiB in thorough); the oracle is the reference model 'received list == sent list, then clean end' in both directions. No proof of absence; sequences up to the stated lengths only.",
        "design_ref": "DESIGN.md §5 C01",
        "note": "Trusted: memnet.Mem / net/http (PipeNet) as carriers, google.golang.org/protobuf equality, the harness's deterministic payload function. Custom user codecs are outside the domain.",
        "technique": "property-based testing (rapid): model-based round-trip over generated message sequences and configurations, poisoned buffer pool (tag verif)",
    },
    "C03": {
        "text": "Exploration with an exhaustive core: every one of the 2^(n-1) segmentations (× EOF with the last bytes / separately) of small valid bodies (≤13 bytes quick, ≤16 thorough) is enumerated for every protocol and direction; larger generated bodies are split byte-wise, at single cuts, around envelope prefixes, at powers of two and at random cut sets. Oracle is metamorphic: same bytes, different read boundaries ⇒ identical observable outcome. Not a proof for all bodies.",
        "design_ref": "DESIGN.md §5 C03",
        "note": "Trusted: refwire builds valid bodies; ChunkReader returns exactly the chosen pieces; outcome comparison covers messages, error code/message/metadata, headers, trailers and the handler's response bytes.",
        "technique": "property-based testing (rapid) + exhaustive enumeration of segmentations: metamorphic relation one-piece vs segmented delivery",
    },
    "C04": {
        "text": "Fault enumeration: for each generated valid body every cut offset (all offsets of bodies ≤400 B quick / ≤8 KiB thorough, otherwise all frame boundaries ±2 plus 64 offsets), four endings and four HTTP-trailer modes (incl. stray success trailers on in-body-terminator protocols) are executed against the client; for requests every cut offset against the handler; for handler responses the k-th ResponseWriter.Write fails for every k; for client requests the transport stops reading after every offset k. Bodies themselves are sampled, the fault positions within each are enumerated.",
        "design_ref": "DESIGN.md §5 C04",
        "note": "Oracle = strict reference decoder (refwire) applied to exactly the bytes and trailers delivered; hangs are decided by a synctest bubble (deadlock ⇒ failure), not by wall-clock timeouts. Unary Connect bodies cut with a clean EOF are a different complete body and are not asserted.",
        "technique": "property-based testing (rapid) with enumerated fault positions: differential against a strict reference decoder, prefix rule, coded-error rule, bubble deadlock detection",
    },
    "C02": {
        "text": "Exploration: generated handler errors (16 codes or plain Go errors; UTF-8 messages built to hit escaping and whitespace edge cases; 0..3 details; metadata multimaps incl. -Bin keys; k messages already sent; raised by the handler or by an interceptor) across 3 protocols × 2 codecs × 4 kinds × {in-memory, HTTP/1.1, h2c}; the client-side error must equal the handler-side error field by field, must never be success, and the raw response must decode to the same error with the independent reference decoder.",
        "design_ref": "DESIGN.md §5 C02",
        "note": "Grey zones not asserted: invalid UTF-8, Any of unlinked types, errors that merely wrap *connect.Error, codes outside 1..16. Trusted: protobuf library for detail equality, refwire for the raw-bytes clause.",
        "technique": "property-based testing (rapid): reference-model comparison handler error == client error, plus differential decode of the raw exchange with an independent codec",
    },
    'C11': {'text': 'Exploration: generated header/trailer/metadata multimaps across 3 protocols × 2 codecs × 4 kinds × 4 outcome classes × {in-memory, HTTP/1.1, h2c}; '
         'containment with per-key order in the right place (headers vs trailers vs error metadata) and nothing invented. The binary-header helpers are '
         'enumerated exhaustively for all byte strings of length ≤2 and sampled up to 300 bytes, decoding padded and unpadded input.',
 'design_ref': 'DESIGN.md §5 C11',
 'note': "Trusted: net/http's own header handling when the real stack carries the call; memnet.Mem's ResponseWriter emulation otherwise.",
 'technique': 'property-based testing (rapid): containment/ordering oracle over generated multimaps; exhaustive enumeration + round-trip for the base64 '
              'helpers'},
    'C16': {'text': 'Exploration with an exhaustive core: all 2^(n-1) compositions of n ≤ 4 (thorough ≤ 6) interceptors into consecutive WithInterceptors groups × nil '
         'masks × {client, handler} × 4 kinds are enumerated; rapid adds arbitrary nestings (depth ≤ 3) inside '
         'WithOptions/WithClientOptions/WithHandlerOptions with empty groups and unrelated options interleaved, over 3 protocols. The oracle is the '
         'flat-concatenation model evaluated on an event log written by the interceptors themselves.',
 'design_ref': 'DESIGN.md §5 C16',
 'note': 'Trusted: the in-memory transport and the universal handler/client programs. Bounded by n ≤ 6 interceptors and nesting depth ≤ 3.',
 'technique': 'property-based testing (rapid) + exhaustive enumeration of compositions: reference model (flat concatenation) vs observed event log'},
    'C19': {'text': 'Exploration: generated panic values (incl. nil under both GODEBUG panicnil modes, runtime errors, the abort sentinel and an error wrapping it) × 4 '
         "kinds × 3 protocols × panic points × interceptor positions × recovery results, plus no-panic controls. Differential oracle against the Go runtime's "
         'own recover(), reference-model comparison of the client-visible error, byte-identical exchange for controls.',
 'design_ref': 'DESIGN.md §5 C19',
 'note': "Trusted: memnet.Mem's recording of escaped panics. Panics raised inside other interceptors are outside the generated domain.",
 'technique': "property-based testing (rapid): differential against Go's recover(), exactly-once counter, model comparison of the delivered error, metamorphic "
              'with/without WithRecover for non-panicking calls'},
    'C18': {'text': 'Exploration with exhaustive sub-spaces: the text form of ALL 2^32 codes round-trips (thorough; quick enumerates 0..2^20, 2^k±2, the top 2^16 and '
         'random values); near-miss and random strings that are neither a name nor code_<n> are rejected; the percent-codec is enumerated for ALL byte strings '
         'of length ≤3 (in-process via go:linkname in both tiers; additionally black-box through a gRPC client, ≤2 quick / ≤3 thorough) and sampled up to 4 '
         'KiB through a real handler and client; code→HTTP status is enumerated for all 2^32 codes (thorough, linkname) and sampled black-box; binary headers '
         'round-trip for every value length 0..4096 (thorough 0..70000, enumerated) and random lengths up to 64 KiB.',
 'design_ref': 'DESIGN.md §5 C18',
 'note': 'The two go:linkname sub-checks are optional: if they stop linking after a refactor they are skipped (noted in the evidence) and the black-box '
         "sub-checks decide. Trusted: refwire's percent codec as second implementation.",
 'technique': 'exhaustive enumeration of finite domains + property-based testing (rapid): round-trip, rejection, header-safety and totality oracles; '
              'differential against an independent percent codec'},
    'C12': {'text': "Exploration: generated (method, HTTP version, Content-Type, codec set, kind) tuples against a model of the dispatch rules, including 'advertised == "
         "accepted' for every generated string (near misses are generated from the advertised set), and generated base-URL shapes through connect.NewClient "
         'and the generated Ping client to compare the Spec seen by client-side and handler-side interceptors.',
 'design_ref': 'DESIGN.md §5 C12',
 'note': "Trusted: the model of the advertised set written from the property statement; memnet.Serve's crafted *http.Request.",
 'technique': 'property-based testing (rapid): executable model of the dispatch rules vs ServeHTTP; Spec agreement as an invariant over generated URL shapes'},
    'C10': {'text': 'Exploration in virtual time: durations stratified over every unit × digit-count boundary of both encodings (±3 ns), the largest expressible values, '
         'MaxInt64, log-uniform and uniform draws; the header a client emits is parsed with an independent grammar and bounded from both sides; header strings '
         "(grammatical, hand-picked malformed, byte mutations, random bytes) are served and the handler's context deadline compared exactly; end-to-end over "
         'real HTTP/1.1 and h2c.',
 'design_ref': 'DESIGN.md §5 C10',
 'note': "Trusted: testing/synctest's virtual clock; refwire's timeout grammars. All three sub-checks are black-box (no unexported identifiers).",
 'technique': 'property-based testing (rapid) in synctest bubbles: exact two-sided bounds on the encoded timeout, exact deadline equality on decode, rejection '
              'oracle for malformed strings'},
    'C09': {'text': 'Exploration: generated (N, protocol, codec, kind, side, position) with probes built to exact encoded sizes N−1/N/N+1/2N/≫N, compression bombs (wire '
         '≤ N < decompressed), fat-wire messages (decompressed ≤ N < wire), and lying length prefixes; oracle is a non-delivery model plus the refusal code. A '
         'separate enumeration measures allocation for N ∈ {4 KiB, 64 KiB, 1 MiB} against bombs of 64N+32 MiB, lying prefixes up to 2^32−1 and lying Content-Lengths; bombs also come '
         'through a user-registered run-length codec with an unbounded compression ratio.',
 'design_ref': 'DESIGN.md §5 C09',
 'note': "Trusted: refwire-built frames with exact sizes; the harness's own gzip/zlib/deflate/toy compressors. N = 0 (unlimited) and the buffering of non-200 "
         'error bodies are outside the domain.',
 'technique': 'property-based testing (rapid): exact-size probes against a non-delivery model; measured allocation bound (TotalAlloc) for bombs and lying '
              'prefixes'},
    'C08': {'text': 'Exploration: (1) reference-client requests with arbitrary encoding / accept-encoding lists against handlers with generated registrations and '
         "thresholds, judged by a negotiation model and by decompressing every flagged payload with the harness's own decompressors; (2) library clients with "
         'generated registrations against a scripted reference server (advertised order, request compression rules, unregistered response encodings rejected); '
         '(3) call histories mixing valid and five kinds of corrupt compressed messages on one shared handler and client set, incl. a stateful toy codec, '
         'requiring every valid call to behave as on fresh pools.',
 'design_ref': 'DESIGN.md §5 C08',
 'note': "Trusted: the harness's compress/* based decompressors and the toy codec; refwire for building requests/responses.",
 'technique': 'property-based testing (rapid): negotiation reference model, independent decompression oracle, history invariant (valid call == fresh result) '
              'on shared pools'},
    'C06': {'text': 'Exploration: valid reference responses, structured mutations of them, synthetic frame sequences with every flag byte, catalogues of hostile Connect '
         'error / end-of-stream JSON, grpc-status / grpc-message / details-bin values, gRPC-Web trailer blocks, arbitrary statuses and random bytes, delivered '
         'to all client APIs in a synctest bubble. Oracle: no panic, no deadlock, success XOR coded non-zero error, status-only mapping as a metamorphic '
         'relation, case-insensitive trailing-metadata lookups for generated key casings.',
 'design_ref': 'DESIGN.md §5 C06',
 'note': 'Trusted: memnet.Script; refwire (to build the valid starting points and to decide whether a body carries a protocol-level error). The '
         'thorough command additionally runs a native coverage-guided campaign (go test -fuzz FuzzHostile, 90 s on all cores, fresh corpus seeded with '
         "1500 examples of the structured generator) over byte-level responses judged by the same oracle; Go's fuzzer cannot be seeded, so the saved "
         'failing input / the JSON case written by the oracle is the reproducible unit.',
 'technique': 'property-based testing (rapid): structured mutation of valid responses + hostile constant catalogues; safety oracle, metamorphic status→code '
              'relation, case-insensitivity relation; plus native coverage-guided fuzzing (go test -fuzz) with the same oracle in the thorough tier'},
    'C07': {'text': 'Exploration: valid reference requests with exactly one fault of nine classes applied at a chosen message position, plus arbitrary requests; served '
         'synchronously in a bubble. The response must be strictly well-formed for the protocol selected by the Content-Type according to the independent '
         'reference decoder (or a bare 405/415/505), user code runs at most once and only ever sees intact sent messages, and each fault class maps to its '
         'documented code, never to success.',
 'design_ref': 'DESIGN.md §5 C07',
 'note': 'Trusted: refwire as strict response parser and as builder of the valid starting points; memnet.Serve. The thorough command additionally runs a '
         'native coverage-guided campaign (go test -fuzz FuzzHostile, 90 s, all cores, fresh corpus seeded from the structured generator) over byte-level '
         "requests judged by the arbitrary-request part of the oracle; Go's fuzzer cannot be seeded.",
 'technique': 'property-based testing (rapid): single-fault injection into valid requests with a per-class code oracle; strict reference decoder as '
              'well-formedness oracle; prefix rule for delivered messages; plus native coverage-guided fuzzing (go test -fuzz) in the thorough tier'},
    'C05': {'text': 'Exploration by differential testing against an independent codec: (1) generated handler programs are driven by reference-client requests in every '
         'legal variation and the raw response must be strictly decodable to exactly what the application supplied (incl. the structural clauses: HTTP 200 + '
         "exactly one grpc-status in the right place, exactly one final end-of-stream envelope, JSON error under the code's status, Content-Type echo, "
         'compressed flag only with a named algorithm); (2) library clients talk to a reference server that answers in every legal variation; their requests '
         "must be strictly decodable and the responses decoded to the same values. Both directions also run over the standard library's HTTP/1.1 and h2c "
         'stacks.',
 'design_ref': 'DESIGN.md §5 C05',
 'note': "Trusted base: refwire (~1 kLoC), Go's encoding/json, compress/*, base64, google.golang.org/protobuf (protowire, protojson for Any).",
 'technique': 'property-based testing (rapid): differential testing against an independent strict reference implementation of the three protocols, in both '
              'directions'},
    'C14': {'text': 'Fault enumeration over schedules: for fixed representative programs every single yield point (and, thorough, every pair) of the duplex call receives '
         'a virtual delay; rapid adds program pairs from seven families (closing, ping-pong, handler exits early while the client keeps sending — also over a transport that keeps swallowing request bytes —, a response message above the client read limit followed by more, a peer answering a single-response call with a stream, cancel '
         'followed by arbitrary operations, typed calls) × 3 protocols × {in-memory transport, real net/http h2c / HTTP/1.1} with 0..2 random delays. '
         "Everything runs in a synctest bubble, so 'every call returns' (deadlock detection) and 'no library goroutine remains' (stack inspection after a 30 s "
         'virtual settle period) are decided, not guessed from wall-clock timeouts.',
 'design_ref': 'DESIGN.md §5 C14',
 'note': "Trusted: testing/synctest (virtual time, deadlock detection), memnet.Mem / net/http as carriers, the verif yield hooks. Liveness is checked as 'no "
         "deadlock within the bubble', i.e. relative to virtual time.",
 'technique': 'property-based testing (rapid) of operation histories inside synctest bubbles with enumerated delay injection at named yield points: deadlock '
              'detection, goroutine-leak inspection, outcome model'},
    'C15': {'text': 'Exploration over instants in virtual time: cancellation or deadline expiry before any operation, between any two operations, while a Send is blocked '
         '(payload larger than every buffer), while a Receive or a typed call is blocked, and within ±1 ns of a handler reply, × 3 protocols × {in-memory, '
         "real h2c/HTTP/1.1} with optional delays at yield points; plus handlers returning the context package's sentinels; a raw peer that stalls after 1..4 bytes of the next envelope prefix (or inside a payload) when the context ends; and the server-side view (handler deadline from the propagated timeout, or request-context cancellation, ending before user code runs or while it waits), judged on the raw response with the independent decoder. Oracle: operations started after "
         'the instant fail; every failure at or after it carries canceled / deadline_exceeded (Send may return the io.EOF-wrapping error); nothing hangs; the '
         'handler does not keep running; no library goroutine remains.',
 'design_ref': 'DESIGN.md §5 C15',
 'note': 'Trusted: testing/synctest; the per-operation virtual timestamps recorded by the universal client.',
 'technique': 'property-based testing (rapid) in synctest bubbles: generated cancellation/expiry instants relative to operation progress; code-rule oracle per '
              'operation, deadlock and leak detection'},
    'C13': {'text': 'Exploration by stress under the race detector: generated plans of up to 16 goroutines × 8 calls with pairwise-distinct self-describing payloads over '
         'one shared handler set and one shared client per configuration, on the in-memory transport and on real loopback sockets (h2c); bidi calls send and '
         'receive from separate goroutines. Any cross-talk, stale pooled buffer (poison hook) or corrupted retained value shows up as a payload/header/error '
         'mismatch against the result computed for the call alone; a data race whose stack includes a connect-go frame is reported as a violation with the '
         'plan and the race log as artefacts. Each plan ends with a concurrent burst of large compressed calls and a storm of 640 small calls (incl. bidi calls '
         'the handler fails while the sender goroutine is busy; some handlers return one shared sentinel error value). A second sub-check (retained-values) '
         'drives 2..6 calls through one client against scripted, partly defective responses and compares every error/header/trailer/message object '
         'handed to the application with its own snapshot after the later calls; a third (handler-peers) sends 2..5 raw requests from different peers '
         'through one handler set and requires each response to be byte-identical to the answer of a fresh handler set to that request alone.',
 'design_ref': 'DESIGN.md §5 C13',
 'note': 'Binary built with -race -tags verif. A race report whose stacks are entirely harness frames is a harness bug (exit 2). Watchdog expiry is exit 2, '
         'never a violation.',
 'technique': 'property-based testing (rapid) of concurrent call plans under the Go race detector with a buffer-poisoning hook: differential against the '
              'sequential result of each call'},
    'C17': {'text': "Exploration over generated service descriptors: the plugin binary is rebuilt from /repo's tree and fed CodeGeneratorRequests for files with "
         'absent/single/dotted packages, 0..3 services × 1..5 methods of all four kinds, names incl. snake_case and every Go keyword / predeclared identifier, '
         'deprecation options, comments, local/nested/imported/well-known message types and three output-path modes. Success, determinism, no output without '
         'services, file name and package, parse + full type-check, and an AST-level routing oracle (canonical path in handler registration, Spec and client '
         'constructor; constructor and Call* matching the kind; mount prefix; name constants). The checked-in ping.connect.go must be regenerated '
         'byte-identically from the checked-in descriptor.',
 'design_ref': 'DESIGN.md §5 C17',
 'note': 'Trusted: protogen / protoc-gen-go from the module cache, go/parser, go/types. Routing is checked on the AST of the generated code; compiling and '
         'executing generated packages is not part of the registered commands.',
 'technique': 'property-based testing (rapid) over generated descriptors: generator run as a black box; parse/type-check/AST-routing oracle; determinism; '
              'golden equality for the checked-in code'},
}
