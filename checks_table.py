"""Table of checks: which test functions decide which property, with budgets."""

Q, T = "quick", "thorough"

CHECKS = {
    "C01": {
        "level": "exploration",
        "assumptions": [
            "in-memory transport memnet.Mem follows net/http's ResponseWriter/Transport contract",
            "messages are connect-go's own PingRequest/PingResponse (two fields)",
        ],
        "jobs": [
            {"pkg": "c01", "run": "TestMem", "checks": {Q: 4000, T: 160000}, "shards": {Q: 4, T: 16}},
            {"pkg": "c01", "run": "TestNet", "checks": {Q: 2000, T: 48000}, "shards": {Q: 4, T: 16}},
            {"pkg": "c01", "run": "TestMemBig", "checks": {Q: 32, T: 1600}, "shards": {Q: 8, T: 16}},
        ],
    },
    "C03": {
        "level": "exploration",
        "assumptions": [
            "bodies are built by the harness's reference encoder (refwire) and are valid by construction",
            "transports: scripted HTTPClient (responses) and synchronous ServeHTTP (requests) with a reader that returns exactly the chosen pieces",
        ],
        "jobs": [
            {"pkg": "c03", "run": "TestSegmentation", "checks": {Q: 12000, T: 400000}, "shards": {Q: 4, T: 16}},
            {"pkg": "c03", "run": "TestExhaustive"},
        ],
    },
    "C04": {
        "level": "fault_enumeration",
        "assumptions": [
            "valid bodies come from the reference encoder; the strict reference decoder defines 'terminator arrived'",
            "a cut is modelled as the body reader returning the first k bytes and then the chosen ending",
        ],
        "jobs": [
            {"pkg": "c04", "run": "TestCuts", "checks": {Q: 1600, T: 24000}, "shards": {Q: 8, T: 16}},
        ],
    },
    "C02": {
        "level": "exploration",
        "assumptions": [
            "error details use message types linked into the binary (Connect's JSON error needs the registry at this pin)",
            "messages are valid UTF-8; codes 1..16; HTTP/1.1 trailers are kept under net/http's own size limit",
        ],
        "jobs": [
            {"pkg": "c02", "run": "TestMem", "checks": {Q: 6000, T: 200000}, "shards": {Q: 4, T: 16}},
            {"pkg": "c02", "run": "TestNet", "checks": {Q: 3000, T: 64000}, "shards": {Q: 4, T: 16}},
        ],
    },
    'C11': {'level': 'exploration',
 'assumptions': ['header values are printable ASCII without leading/trailing blanks (HTTP strips those); keys are outside the protocol-reserved prefixes',
                 "for unary and client-stream handlers that fail, only the error's own metadata is expected (the API gives such handlers no response object to "
                 'put headers on)'],
 'jobs': [{'pkg': 'c11', 'run': 'TestMem', 'checks': {'quick': 6000, 'thorough': 200000}, 'shards': {'quick': 4, 'thorough': 16}},
          {'pkg': 'c11', 'run': 'TestNet', 'checks': {'quick': 3000, 'thorough': 64000}, 'shards': {'quick': 4, 'thorough': 16}},
          {'pkg': 'c11', 'run': 'TestBinaryHelpers'},
          {'pkg': 'c11', 'run': 'TestBinaryHelpersRandom', 'checks': {'quick': 20000, 'thorough': 400000}, 'shards': {'quick': 1, 'thorough': 4}}]},
    'C16': {'level': 'exploration',
 'assumptions': ['the other side of the call carries no interceptors; calls are carried by the in-memory transport',
                 "'first to see outgoing / last to see incoming' is read in call direction, as in the WithInterceptors documentation diagram: on a handler the "
                 "first interceptor's wrapped conn is next to the network"],
 'jobs': [{'pkg': 'c16', 'run': 'TestTrees', 'checks': {'quick': 8000, 'thorough': 300000}, 'shards': {'quick': 4, 'thorough': 16}},
          {'pkg': 'c16', 'run': 'TestCompositions'}]},
    'C19': {'level': 'exploration',
 'assumptions': ['the other interceptors around WithRecover are pass-through; panics are raised by handler code (not by interceptors)',
                 "calls are carried by the in-memory transport, which records a panic that escapes ServeHTTP like net/http's server would"],
 'jobs': [{'pkg': 'c19', 'run': 'TestRecover', 'checks': {'quick': 6000, 'thorough': 200000}, 'shards': {'quick': 4, 'thorough': 16}},
          {'pkg': 'c19',
           'run': 'TestRecover',
           'checks': {'quick': 3000, 'thorough': 100000},
           'shards': {'quick': 2, 'thorough': 8},
           'env': {'GODEBUG': 'panicnil=1'}}]},
    'C18': {'level': 'exploration',
 'assumptions': ['code_<n> spellings with signs, leading zeros, n in 1..16 or n ≥ 2^32 are a grey zone and not asserted',
                 'the black-box encoder path needs valid UTF-8 (the binary status message is a proto string); arbitrary bytes reach the encoder only through '
                 'the optional go:linkname sub-check'],
 'jobs': [{'pkg': 'c18', 'run': 'TestCodeTextRandom', 'checks': {'quick': 20000, 'thorough': 400000}, 'shards': {'quick': 1, 'thorough': 4}},
          {'pkg': 'c18', 'run': 'TestCodeTextEnum', 'shards': {'quick': 1, 'thorough': 16}, 'timeout': {'quick': 300, 'thorough': 3000}},
          {'pkg': 'c18', 'run': 'TestCodeTextReject', 'checks': {'quick': 20000, 'thorough': 400000}, 'shards': {'quick': 1, 'thorough': 4}},
          {'pkg': 'c18', 'run': 'TestPercentBlackBox', 'checks': {'quick': 8000, 'thorough': 320000}, 'shards': {'quick': 4, 'thorough': 16}},
          {'pkg': 'c18', 'run': 'TestPercentDecoderTotal', 'checks': {'quick': 8000, 'thorough': 320000}, 'shards': {'quick': 2, 'thorough': 8}},
          {'pkg': 'c18', 'run': 'TestPercentEnum', 'shards': {'quick': 4, 'thorough': 16}, 'timeout': {'quick': 300, 'thorough': 3000}},
          {'pkg': 'c18', 'run': 'TestCodeStatusBlackBox', 'checks': {'quick': 8000, 'thorough': 160000}, 'shards': {'quick': 2, 'thorough': 8}},
          {'pkg': 'c18', 'run': 'TestBinaryHeader', 'checks': {'quick': 20000, 'thorough': 400000}, 'shards': {'quick': 1, 'thorough': 4}},
          {'pkg': 'c18link',
           'run': 'TestStatusAllCodes',
           'optional': True,
           'shards': {'quick': 8, 'thorough': 16},
           'timeout': {'quick': 300, 'thorough': 3000}},
          {'pkg': 'c18link', 'run': 'TestPercentAllShort', 'optional': True, 'shards': {'quick': 8, 'thorough': 16}}]},
    'C12': {'level': 'exploration',
 'assumptions': ['where a custom codec name makes one Content-Type belong to two protocols, which protocol wins is not asserted (only that the type is '
                 'accepted and user code runs at most once)',
                 'requests reach ServeHTTP directly with crafted method / version / headers'],
 'jobs': [{'pkg': 'c12', 'run': 'TestDispatch', 'checks': {'quick': 30000, 'thorough': 1200000}, 'shards': {'quick': 4, 'thorough': 16}},
          {'pkg': 'c12', 'run': 'TestSpecAgreement', 'checks': {'quick': 6000, 'thorough': 200000}, 'shards': {'quick': 4, 'thorough': 16}}]},
    'C10': {'level': 'exploration',
 'assumptions': ['time is virtual (testing/synctest bubble), so the remaining time at encoding and the start instant at decoding are exact',
                 "grey spellings (signed numbers, zero, more leading zeros than the grammar's digit limit, remaining time below one Connect millisecond) are "
                 'only required not to panic and to yield either a rejection or a run'],
 'jobs': [{'pkg': 'c10', 'run': 'TestEncode', 'checks': {'quick': 12000, 'thorough': 640000}, 'shards': {'quick': 4, 'thorough': 16}},
          {'pkg': 'c10', 'run': 'TestDecode', 'checks': {'quick': 16000, 'thorough': 640000}, 'shards': {'quick': 4, 'thorough': 16}},
          {'pkg': 'c10', 'run': 'TestEndToEnd', 'checks': {'quick': 4000, 'thorough': 160000}, 'shards': {'quick': 4, 'thorough': 16}}]},
    'C09': {'level': 'exploration',
 'assumptions': ['the limit is asserted for messages; protocol terminator frames (gRPC-Web trailers, Connect end-of-stream) that are themselves larger than N '
                 'are kept out of the domain',
                 "allocation is measured with runtime.MemStats.TotalAlloc around one synchronous call in a process of its own (GOMAXPROCS=1); the bound's "
                 'constant (4 MiB) covers one-off compressor state'],
 'jobs': [{'pkg': 'c09', 'run': 'TestLimits', 'checks': {'quick': 8000, 'thorough': 320000}, 'shards': {'quick': 8, 'thorough': 16}},
          {'pkg': 'c09', 'run': 'TestAlloc', 'gomaxprocs': 1}]},
    'C08': {'level': 'exploration',
 'assumptions': ['which of {request algorithm, first mutual} a handler picks when the request was compressed is not asserted (both satisfy the statement); '
                 'whether a payload ≥ min must be compressed is not asserted',
                 'histories run with GOMAXPROCS=1 and synchronous ServeHTTP so that sync.Pool really hands the same (de)compressor to consecutive calls'],
 'jobs': [{'pkg': 'c08', 'run': 'TestHandlerNegotiation', 'checks': {'quick': 12000, 'thorough': 480000}, 'shards': {'quick': 4, 'thorough': 16}},
          {'pkg': 'c08', 'run': 'TestClientSide', 'checks': {'quick': 12000, 'thorough': 480000}, 'shards': {'quick': 4, 'thorough': 16}},
          {'pkg': 'c08', 'run': 'TestPoolHistory', 'checks': {'quick': 2400, 'thorough': 96000}, 'shards': {'quick': 8, 'thorough': 16}, 'gomaxprocs': 1}]},
    'C06': {'level': 'exploration',
 'assumptions': ['responses reach the client through a scripted HTTPClient (status, header multimap, body bytes, trailer multimap, HTTP version numbers chosen '
                 'freely)',
                 'not asserted: which code statuses outside {401,403,404,429,502,503,504} map to; responses naming an encoding the client lacks; '
                 'code_<n>/unknown names in a Connect error body; envelope prefixes declaring >1 MiB more than present (without a read limit the library '
                 'allocates the declared size, which only slows the search)'],
 'jobs': [{'pkg': 'c06', 'run': 'TestHostile', 'checks': {'quick': 12000, 'thorough': 800000}, 'shards': {'quick': 8, 'thorough': 16}},
          {'pkg': 'c06', 'run': 'TestMetadataCasing', 'checks': {'quick': 4000, 'thorough': 100000}, 'shards': {'quick': 2, 'thorough': 8}}]},
    'C07': {'level': 'exploration',
 'assumptions': ['requests reach ServeHTTP directly (crafted method, version, header multimap, body bytes); the handler program drains the request and returns '
                 'a Receive error as any realistic handler does',
                 "not asserted: extra frames after the single message of a unary/server-stream request; client-sent frames carrying another protocol's "
                 'terminator flag; envelope prefixes declaring >1 MiB more than present without a read limit'],
 'jobs': [{'pkg': 'c07', 'run': 'TestHostile', 'checks': {'quick': 16000, 'thorough': 800000}, 'shards': {'quick': 8, 'thorough': 16}}]},
    'C05': {'level': 'exploration',
 'assumptions': ["conformance is relative to the harness's reference codec refwire (written from the protocol documents, DESIGN.md §9); where published "
                 'revisions disagree both readings are accepted',
                 'grpc-go is not used as a second reference (its dependency set cannot be built together with the harness module offline)'],
 'jobs': [{'pkg': 'c05', 'run': 'TestHandlerConformance', 'checks': {'quick': 6000, 'thorough': 240000}, 'shards': {'quick': 4, 'thorough': 16}},
          {'pkg': 'c05', 'run': 'TestHandlerConformanceNet', 'checks': {'quick': 3000, 'thorough': 96000}, 'shards': {'quick': 4, 'thorough': 16}},
          {'pkg': 'c05', 'run': 'TestClientConformance', 'checks': {'quick': 6000, 'thorough': 240000}, 'shards': {'quick': 4, 'thorough': 16}},
          {'pkg': 'c05', 'run': 'TestClientConformanceNet', 'checks': {'quick': 3000, 'thorough': 96000}, 'shards': {'quick': 4, 'thorough': 16}}]},
    'C14': {'level': 'fault_enumeration',
 'assumptions': ['client programs respect the stated discipline (request side started first; finish by CloseRequest then CloseResponse, or by cancelling); '
                 'handler programs block only on client input or virtual sleeps',
                 'orderings of runnable goroutines between yield points are left to the Go scheduler; delays reorder only around the instrumented points '
                 '(build tag verif) and the harness-owned boundaries'],
 'jobs': [{'pkg': 'c14', 'run': 'TestPrograms', 'checks': {'quick': 2400, 'thorough': 96000}, 'shards': {'quick': 8, 'thorough': 16}},
          {'pkg': 'c14', 'run': 'TestDelayEnumeration', 'timeout': {'quick': 300, 'thorough': 1800}}]},
    'C15': {'level': 'exploration',
 'assumptions': ['the handler is still running at the instant (it blocks on the request stream or on its context), as the property requires; a Receive that '
                 'reports a clean end of stream means the handler had finished and voids the precondition',
                 "over HTTP/1.1 the handler-context clause is only exercised where net/http's server can notice a vanished client"],
 'jobs': [{'pkg': 'c15',
           'run': 'TestInstants',
           'checks': {'quick': 2400, 'thorough': 96000},
           'shards': {'quick': 8, 'thorough': 16},
           'timeout': {'quick': 600, 'thorough': 3600}},
           {'pkg': 'c15', 'run': 'TestPartialFrame', 'checks': {'quick': 1600, 'thorough': 64000}, 'shards': {'quick': 4, 'thorough': 16}},
           {'pkg': 'c15', 'run': 'TestServerSideExpiry', 'checks': {'quick': 1600, 'thorough': 48000}, 'shards': {'quick': 2, 'thorough': 8}}]},
    'C13': {'level': 'exploration',
 'assumptions': ['schedules are sampled, not enumerated: the Go scheduler and the race detector see only the interleavings that actually ran; a '
                 'schedule-dependent failure is reproduced by re-running the saved plan, not deterministically',
                 "handlers are pure functions of the request, so 'the same call alone' is computable from the plan"],
 'jobs': [{'pkg': 'c13',
           'run': 'TestPlansMem',
           'race': True,
           'checks': {'quick': 32, 'thorough': 3200},
           'shards': {'quick': 16, 'thorough': 16},
           'timeout': {'quick': 600, 'thorough': 7200},
           'shrinktime': '60s'},
          {'pkg': 'c13',
           'run': 'TestPlansSock',
           'race': True,
           'checks': {'quick': 8, 'thorough': 1600},
           'shards': {'quick': 8, 'thorough': 16},
           'timeout': {'quick': 600, 'thorough': 7200},
           'shrinktime': '60s'}]},
    'C17': {'level': 'exploration',
 'assumptions': ["'every valid Protobuf file' is approximated by FileDescriptorProtos built by construction and validated with protodesc (no protoc/buf in the "
                 'sandbox); Go-name collisions that protoc itself permits are excluded from the domain',
                 "type-checking uses go/types with the export data of /repo's current connect package and of the protoc-gen-go (v1.28.0) output"],
 'jobs': [{'pkg': 'c17',
           'run': 'TestDescriptors',
           'checks': {'quick': 640, 'thorough': 32000},
           'shards': {'quick': 16, 'thorough': 16},
           'timeout': {'quick': 600, 'thorough': 3600}},
          {'pkg': 'c17', 'run': 'TestCheckedIn'},
           {'pkg': 'c17', 'run': 'TestCompiledRouting', 'shards': {'quick': 2, 'thorough': 8}, 'timeout': {'quick': 600, 'thorough': 1800}}]},
}
