"""Table of checks: which test functions decide which property, with budgets."""

Q, T = "quick", "thorough"

CHECKS = {
    "C01": {
        "level": "exploration",
        "assumptions": [
            "in-memory transport memnet.Mem follows net/http's ResponseWriter/Transport contract",
            "messages are connect-go's own PingRequest/PingResponse (two fields)",
        ],
        "jobs": [
            {"pkg": "c01", "run": "TestMem", "checks": {Q: 4000, T: 160000}, "shards": {Q: 4, T: 16}},
        ],
    },
}
