#!/usr/bin/env python3
"""Evaluate seeded defects: ./seeded_eval.py [--thorough] <seeded-dir> [...]

For each /verif/seeded/<name>/ (patch.diff, demo_test.go, meta.json):
  1. /repo must be clean; apply the patch (git apply)
  2. the repository's own test suite must still pass
  3. the demonstration test must fail with the patch
  4. run the property's quick (and optionally thorough) check: expect exit 1 + VIOLATION line
  5. undo the patch (git checkout -- .) and confirm the demonstration passes without it
Results are written back into meta.json under "evaluation". /repo is always restored."""
import json, os, subprocess, sys, time, shutil

REPO = "/repo"
ROOT = os.path.dirname(os.path.abspath(__file__))


def sh(cmd, timeout=1800):
    p = subprocess.run(cmd, shell=True, stdout=subprocess.PIPE, stderr=subprocess.STDOUT, text=True, errors="replace", timeout=timeout)
    return p.returncode, p.stdout


def clean():
    sh("git -C %s checkout -- ." % REPO)
    for root, _, files in os.walk(REPO):
        if "zz_demo_test.go" in files:
            os.remove(os.path.join(root, "zz_demo_test.go"))


def run_demo(d, meta):
    dd = str(meta.get("demo_dir", "."))
    demo_dir = os.path.join(REPO, "cmd/protoc-gen-connect-go") if "cmd/protoc-gen-connect-go" in dd else REPO
    dst = os.path.join(demo_dir, "zz_demo_test.go")
    shutil.copy(os.path.join(d, "demo_test.go"), dst)
    pkg = "./" + os.path.relpath(demo_dir, REPO)
    race = "-race " if meta.get("demo_needs_race") else ""
    rc, out = sh("cd %s && GOFLAGS=-mod=mod GOPROXY=off go test %s-vet=off -count=1 -run 'TestDemo' %s 2>&1 | tail -15" % (REPO, race, pkg), timeout=900)
    os.remove(dst)
    failed = ("FAIL" in out) and ("build failed" not in out)
    passed = out.strip().splitlines()[-1].startswith("ok") if out.strip() else False
    return failed, passed, out


def evaluate(d, thorough=False):
    d = os.path.abspath(d)
    meta = json.load(open(os.path.join(d, "meta.json")))
    pid = meta["property"]
    ev = {"at": time.strftime("%Y-%m-%dT%H:%M:%SZ", time.gmtime())}
    assert sh("git -C %s status --porcelain" % REPO)[1].strip() == "", "/repo not clean"
    try:
        rc, out = sh("git -C %s apply %s" % (REPO, os.path.join(d, "patch.diff")))
        ev["patch_applies"] = rc == 0
        if rc != 0:
            ev["error"] = out[-500:]
            meta["evaluation"] = ev
            json.dump(meta, open(os.path.join(d, "meta.json"), "w"), indent=1)
            return ev
        rc, out = sh("cd %s && GOFLAGS=-mod=mod GOPROXY=off go build ./... && GOFLAGS=-mod=mod GOPROXY=off go test -vet=off -count=1 ./... 2>&1 | tail -5" % REPO)
        ev["suite_passes_with_patch"] = rc == 0 and "FAIL" not in out
        failed, _, out = run_demo(d, meta)
        ev["demo_fails_with_patch"] = failed
        ev["demo_output_tail"] = out[-600:]
        for tier in (["quick", "thorough"] if thorough else ["quick"]):
            t0 = time.time()
            rc, out = sh("cd %s && VERIF_EVIDENCE_DIR=/verif/.run/evidence-mutated ./verif check %s %s" % (ROOT, pid, tier), timeout=7200)
            lines = [l for l in out.splitlines() if l.startswith("VIOLATION") or l.startswith("  ")]
            ev["check_" + tier] = {"exit": rc, "detected": rc == 1 and ("VIOLATION property=%s" % pid) in out, "wall_s": round(time.time() - t0, 1), "report": "\n".join(lines)[:1500]}
            if ev["check_" + tier]["detected"]:
                break
        # other properties' checks that also notice (informational): skipped for speed
    finally:
        clean()
    _, passed, out = run_demo(d, meta)
    ev["demo_passes_without_patch"] = passed
    clean()
    meta["evaluation"] = ev
    json.dump(meta, open(os.path.join(d, "meta.json"), "w"), indent=1)
    return ev


def main():
    args = sys.argv[1:]
    thorough = "--thorough" in args
    args = [a for a in args if a != "--thorough"]
    worst = 0
    for d in args:
        ev = evaluate(d.rstrip("/"), thorough)
        det = any(v.get("detected") for k, v in ev.items() if k.startswith("check_"))
        valid = ev.get("patch_applies") and ev.get("suite_passes_with_patch") and ev.get("demo_fails_with_patch") and ev.get("demo_passes_without_patch")
        print("%-28s valid=%s detected=%s %s" % (os.path.basename(d.rstrip("/")), bool(valid), det, {k: (v["exit"], v["wall_s"]) for k, v in ev.items() if k.startswith("check_")}), flush=True)
        if valid and not det:
            worst = 1
    return worst


if __name__ == "__main__":
    sys.exit(main())
