#!/usr/bin/env python3
"""Rewrites the seeded-defect table in DESIGN.md (between the SEEDED markers) from /verif/seeded/*/meta.json."""
import json, glob, os, re
ROOT = os.path.dirname(os.path.abspath(__file__))
BASELINE_MISSED = {"C02-2": "C02 now sets stream trailers that share keys with the error metadata",
 "C05-1": "C05 handler programs now return errors whose metadata carries forwarded Grpc-Status/Grpc-Message/details keys",
 "C05-2": "new legal-variation knob OmitDetailsBin (message travels only in grpc-message)",
 "C06-2": "hostile grpc-message catalogue + token-soup generator (complete and truncated escapes mixed)",
 "C07-1": "new fault class: spelling variants of a served Content-Type (parameters, case, blanks)",
 "C07-2": "over-long timeouts that also overflow time.Duration added to C07 and C10",
 "C08-2": "pool histories can run two valid calls overlapped (gate pauses the first inside its decompressor)",
 "C09-1": "oversize frames carrying end-of-stream/trailer flags, also as lying prefixes in the allocation test",
 "C09-2": "limits at and beyond 2^31/2^32 with ordinary messages",
 "C12-1": "two separate WithInterceptors options on the generated service (options reused across procedures)",
 "C13-2": "sequential over-limit compressed prologue + concurrent 60 KB compressed burst (race detector fires)",
 "C15-1": "new sub-check partial-frame: context ends after 1..4 bytes of the next prefix arrived",
 "C15-2": "new sub-check server-side-expiry: handler deadline passes before user code runs; raw response decoded",
 "C16-2": "the same option values are applied to 1–2 other clients/handlers first",
 "C01r2-2": "enumerated recycle-cap sweep: consecutive >8 MiB messages, the later with zero fields (was reachable only in the thorough tier)",
 "C07r2-2": "zero-length envelopes under undefined flag bits",
 "C09r2-1": "handler-side requests announce Content-Length as fixed-size clients do",
 "C15r2-2": "instant class between-burst: context ends after part of an already-delivered burst was taken",
 "C17r2-2": "a second file with same-named services in another package in the same plugin invocation",
 "C04r3-1": "new trailer mode: HTTP trailers claiming Grpc-Status 0 on the protocols whose terminator lives in the body (gRPC-Web, Connect)",
 "C06r3-2": "gRPC statuses next to non-200 HTTP statuses are generated; a zero Grpc-Status is no longer treated as a protocol-level error; universal clause 'a non-200 response never succeeds'",
 "C10r3-1": "deadline source dimension: the caller's context, a default-timeout client interceptor, or an interceptor shortening the caller's deadline (encode and end-to-end sub-checks)",
 "C11r3-2": "handlers of client/bidi streams optionally set their response headers only after receiving (still before the first Send)",
 "C13r3-1": "some failing calls return one shared sentinel *connect.Error with metadata; per-call trailers on failing streams; error metadata must not carry other calls' trailers and the sentinel must stay intact",
 "C14r3-1": "new program family 'oversize': a response message above the client's read limit followed by further messages and further Receives (sticky Receive errors)",
 "C16r3-1": "WithInterceptors groups optionally are sub-slices list[a:b] of one backing array with spare capacity (enumeration and random trees)",
 "C17r3-2": "keyword-like names in every casing (GO, IF, tYpE) and leading initialisms (HTTPGet next to HttpGet); the checker now finds a method's client field from the method body instead of by case-insensitive name (it had confused GOTO with Goto)",
 "C18r3-1": "binary-header values of every length: enumerated sweep 0..4096 (thorough 0..70000) and random lengths up to 64 KiB (the generator had stopped at 64 bytes); C11 -Bin values up to 1.5 KB",
 "C19r3-3": "panic point 'after the handler's context has ended' (propagated client deadline in virtual time)",
 "C03r4-2": "response class 'HTTP error page' (non-200 text/plain, HTML or JSON bodies) delivered under every segmentation incl. EOF together with the last bytes",
 "C04r4-2": "request-side fault injection now also for unary / server-stream calls, and the transport's Do error may wrap io.EOF (net/http's 'Post …: EOF')",
 "C05r4-2": "handler programs may send a response message that no codec can marshal (invalid UTF-8): the response must still be a well-formed failure with exactly the earlier messages",
 "C06r4-1": "metadata-casing sub-check: the same field arrives in two casings with different values; both belong to one field",
 "C07r4-1": "empty / blank bodies as undecodable JSON documents for unary Connect",
 "C07r4-2": "compressed-flag-without-header fault now also with a really compressed payload while the client advertises that algorithm for the response",
 "C08r4-2": "accept lists contain explicitly refused entries (gzip;q=0)",
 "C09r4-1": "allocation probes with a lying Content-Length (8 MiB − 1, 2 GiB) for unary Connect on both sides",
 "C09r4-2": "bombs through a user-registered run-length codec with an unbounded ratio (a dozen bytes on the wire), limits of 100000 and 1 MiB",
 "C10r4-2": "zero timeouts generated explicitly; if user code runs on a zero timeout its context must carry that (expired) deadline",
 "C12r4-2": "custom codec names with upper-case letters",
 "C13r4-1": "new sub-check retained-values: 2..6 calls through one client against scripted (also defective) responses; every error/header/trailer/message handed out is compared with its snapshot after the later calls",
 "C13r4-2": "bidi calls that the handler fails right after the first message while the client's sender goroutine still sends 30 more (race detector)",
 "C14r4-1": "cancel family may cancel before the call has done anything (then the first operation is a Send or CloseRequest)",
 "C14r4-2": "typed family: a handler of another RPC kind answers a single-response call with 2–3 messages; the call must end, close the body and leave no goroutine",
 "C16r4-2": "the shared option values are applied elsewhere behind a shorter prefix; one option value may be listed twice",
 "C17r4-2": "package names starting with h/t/p/s (store.v1, payments.v1, test.http.v2, s, https)",
 "C19r4-1": "the panic may be raised by an interceptor declared after WithRecover (nested inside it)",
 "C01r5-1": "a peer whose gzip writer emits two members per message (registered as gzip) against the built-in gzip reader",
 "C01r5-2": "messages carrying a field the receiver's schema does not know (binary codec): unknown fields are content",
 "C02r5-1": "the coded error reaches the library wrapped: fmt.Errorf(%w), errors.Join, two %w",
 "C02r5-2": "a coded error (also code unknown) whose underlying error wraps context.Canceled / DeadlineExceeded",
 "C03r5-1": "JSON error bodies with leading/trailing whitespace among the HTTP error pages",
 "C03r5-2": "requests may announce their Content-Length (as fixed-size clients do), in both the one-piece and the segmented delivery",
 "C04r5-1": "new transport ending: HTTP/2 'stream error … NO_ERROR; received from peer' before the body is complete",
 "C05r5-1": "error metadata forwards representation headers (Content-Type, Content-Length); this exposed a GENUINE defect (fixed in /repo 0143659), after which this seeded change is ineffective (see its superseded_note)",
 "C05r5-2": "reference errors now carry 0–2 details and short messages, so padded '==' status payloads occur; details are compared on the client side",
 "C06r5-2": "response bodies may end in a transport error (unexpected EOF, connection reset) instead of a clean end",
 "C07r5-2": "the oversize fault optionally sets an end-of-stream / trailer / unknown flag on the oversized envelope",
 "C08r5-1": "requests may carry the other accept header as well (plain Accept-Encoding on streaming / gRPC requests), which is not this protocol's advertisement",
 "C11r5-1": "trailer keys that begin with unary Connect's carrier prefix (Trailer-Id) and other look-alikes (Tea, Accept-Language)",
 "C13r5-1": "new sub-check handler-peers: 2..5 raw requests from different peers through one handler set, each response byte-identical to a fresh handler's answer",
 "C14r5-1": "typed calls whose request message cannot be marshalled: the call must fail, close the body and leave no goroutine",
 "C15r5-2": "pre-cancelled context that also has a deadline which passes before the first operation: every failure must still say canceled",
 "C16r5-1": "ref nodes: an earlier WithInterceptors value is used again elsewhere in the tree",
 "C17r5-2": "go_package import paths with further elements (acme-weather/v2, x.y/v3, v2, api/v1) and no alias",
 "C18r5-1": "code_<digits> with junk before or after the digits must be rejected (signed numbers stay grey)",
 "C19r5-1": "the recovery function returns its coded error wrapped (fmt.Errorf %w, errors.Join)",
 "C19r5-2": "the panic is raised inside conn.Send by the handler's codec (streaming kinds, binary codec)",
 "C02r6-2": "error messages of 67–320 KB (the unary Connect error body then exceeds any 'errors are small' cap)",
 "C04r6-2": "trailer mode with-error: the HTTP trailers are present although the body ended in a transport error",
 "C05r6-2": "NOT detected, by design: canceled under HTTP 499 is what later versions of the Connect specification prescribe; the reference decoder accepts both tables (meta.json: not_detected_by_design)",
 "C07r6-1": "a gRPC-Web trailer frame (flag 0x80, header-like payload) inside a plain gRPC request",
 "C11r6-1": "failing handlers may return a plain Go error after setting trailers (trailers must still reach the error's metadata)",
 "C11r6-2": "request header keys outside the reserved prefixes that resemble HTTP's own (Accept-Language, Content-Language, …)",
 "C12r6-2": "requests may announce their Content-Length (a bidi procedure over HTTP/1.x must answer 505 all the same)",
 "C13r6-1": "the unary handler keeps some *connect.Request values; they are compared with their snapshot at the end of the plan",
 "C13r6-2": "every other bidi call starts its receiver first; the sender sets the request headers while Receive is already waiting",
 "C14r6-2": "flood: ≥ 3 MB of Sends after the handler has finished (and after a 5 s virtual pause) cannot all succeed",
 "C15r6-1": "handlers return their context's error wrapped with %w",
 "C17r6-2": "services without methods",
 "C19r6-3": "the recovery function returns a 2.5 KB message (a stack trace)",
 "C06r7-1": "JSON error bodies whose code is no Connect code name are not protocol-level errors (status decides); this also exposed that clampLengths had been corrupting unary Connect JSON bodies in the generator",
 "C08r7-1": "reference servers may compress their final end-of-stream envelope / gRPC-Web trailer frame (refwire knob CompressEnd)",
 "C11r7-1": "-Bin values in the padded base64 spelling",
 "C01r8-1": "NOT detected, and not a violation: Msg() is documented to be overwritten by the next Receive; the yielded sequence is unchanged",
 "C02r8-1": "NOT detected (open gap): one field name under two map keys that differ only in case in the error metadata",
 "C04r8-1": "cuts of COMPRESSED unary Connect bodies are asserted (the compression format marks its own end); the empty body stays exempt",
 "C05r8-1": "the reference server may compress a unary Connect error document / its final end-of-stream or trailer frame (CompressEnd)",
 "C07r8-1": "fault class nomessage: an enveloped unary / server-stream request without any envelope",
 "C08r8-1": "NOT detected (grey zone, unasserted): empty body under an unknown Content-Encoding",
 "C14r8-1": "NOT detected (open gap): server stream over HTTP/1.1 abandoned with Close() while the handler keeps sending",
 "C15r8-1": "NOT detected (open gap): context ends while an over-limit message is being skipped",
 "C17r8-1": "trailing comments on rpcs (one or several lines, '*/', blank lines)",
 "C19r8-1": "another, non-panicking call through the same handler starts and returns while the handler under test pauses before its panic"}
rows = []
for d in sorted(glob.glob(os.path.join(ROOT, "seeded", "C*-*"))):
    name = os.path.basename(d)
    m = json.load(open(os.path.join(d, "meta.json")))
    ev = m.get("evaluation", {})
    if m.get("superseded_note"):
        ev = m.get("baseline_evaluation", ev)
    valid = ev.get("patch_applies") and ev.get("suite_passes_with_patch") and ev.get("demo_fails_with_patch") and ev.get("demo_passes_without_patch")
    det = [k.replace("check_", "") + " %.0fs" % v["wall_s"] for k, v in ev.items() if k.startswith("check_") and v.get("detected")]
    summ = re.sub(r"\s+", " ", str(m.get("summary", "")))[:170].replace("|", "/")
    needs = re.sub(r"\s+", " ", str(m.get("needs", "")))[:150].replace("|", "/")
    note = ("missed at first; " + BASELINE_MISSED[name]).replace("missed at first; NOT detected", "NOT detected") if name in BASELINE_MISSED else "detected as first evaluated"
    if "r2-" in name:
        note = "round 2: " + note
    if "r3-" in name:
        note = "round 3: " + note
    if "r4-" in name:
        note = "round 4: " + note
    if "r5-" in name:
        note = "round 5: " + note
    if "r6-" in name:
        note = "round 6: " + note
    if "r7-" in name:
        note = "round 7: " + note
    if "r8-" in name:
        note = "round 8: " + note
    rows.append("| %s | %s | %s | %s | %s | %s |" % (name, summ, needs, "yes" if valid else "NO", ", ".join(det) or "**not detected**", note))
table = "| seeded | change | needs | confirmed (applies, suite passes, demo fails/passes) | detected by `./verif check <prop>` | history |\n|---|---|---|---|---|---|\n" + "\n".join(rows)
p = os.path.join(ROOT, "DESIGN.md")
s = open(p).read()
a, b = "<!-- SEEDED-BEGIN -->", "<!-- SEEDED-END -->"
if a in s:
    s = s[:s.index(a) + len(a)] + "\n" + table + "\n" + s[s.index(b):]
    open(p, "w").write(s)
print(len(rows), "rows")
