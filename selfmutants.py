#!/usr/bin/env python3
"""Sensitivity self-test: apply small hand-written mutants to /repo one at a time, run the
property's quick check, require exit 1, revert.  Usage: ./selfmutants.py [ID ...]

These complement the independently produced seeded defects under /verif/seeded/.
Never leaves /repo modified (git checkout -- . after every mutant)."""
import subprocess, sys, os, json, time

REPO = "/repo"
ROOT = os.path.dirname(os.path.abspath(__file__))

# (property, name, file, old, new)
MUTANTS = [
    ("C01", "length-prefix-truncated-to-16-bits", "envelope.go",
     "binary.BigEndian.PutUint32(prefix[1:5], uint32(env.Data.Len()))",
     "binary.BigEndian.PutUint32(prefix[1:5], uint32(uint16(env.Data.Len())))"),
    ("C08", "compress-below-threshold-inverted", "envelope.go",
     "env.Data.Len() < w.compressMinBytes {", "env.Data.Len() > w.compressMinBytes && w.compressMinBytes > 0 {"),
    ("C01", "stale-holder-reintroduced-client", "client_stream.go",
     "\ts.msg = new(Res)\n\ts.receiveErr = s.conn.Receive(s.msg)", "\tif s.msg == nil {\n\t\ts.msg = new(Res)\n\t}\n\ts.receiveErr = s.conn.Receive(s.msg)"),
    ("C01", "marshal-buffer-released-before-write", "envelope.go",
     "\tbuffer := bytes.NewBuffer(raw)\n\tdefer w.bufferPool.Put(buffer)\n\tenvelope := &envelope{Data: buffer}\n\treturn w.Write(envelope)", "\tbuffer := bytes.NewBuffer(raw)\n\tenvelope := &envelope{Data: bytes.NewBuffer(buffer.Bytes())}\n\tw.bufferPool.Put(buffer)\n\treturn w.Write(envelope)"),
    ("C02", "details-bin-dropped", "protocol_grpc.go",
     "\ttrailer.Set(grpcHeaderDetails, EncodeBinaryHeader(bin))\n", "\t_ = bin\n"),
    ("C02", "percent-encode-only-percent", "protocol_grpc.go",
     "if c := msg[i]; c < ' ' || c > '~' || c == '%' {\n\t\t\treturn grpcPercentEncodeSlow", "if c := msg[i]; c == '%' {\n\t\t\treturn grpcPercentEncodeSlow"),
    ("C02", "meta-not-merged-unary-connect", "protocol_connect.go",
     "\t\t\tmergeHeaders(header, connectErr.meta)\n", "\t\t\t_ = connectErr\n"),
    ("C03", "single-read-for-prefix", "envelope.go",
     "io.ReadFull(r.reader, prefixes[:])", "r.reader.Read(prefixes[:])"),
    ("C04", "missing-grpc-status-is-ok", "protocol_grpc.go",
     "\tif codeHeader == \"\" {\n\t\treturn NewError(CodeInternal, errTrailersWithoutGRPCStatus)\n\t}", "\tif codeHeader == \"\" {\n\t\treturn nil\n\t}"),
    ("C04", "short-payload-accepted", "envelope.go",
     "\t\t\t\treturn errorf(\n\t\t\t\t\tCodeInvalidArgument,\n\t\t\t\t\t\"protocol error: promised %d bytes in enveloped message, got %d bytes\",\n\t\t\t\t\tsize,\n\t\t\t\t\tint64(size)-remaining,\n\t\t\t\t)", "\t\t\t\tbreak"),
    ("C05", "content-type-hard-coded", "protocol_grpc.go",
     "\theader[headerContentType] = []string{request.Header.Get(headerContentType)}\n\theader[grpcHeaderAcceptCompression]", "\theader[headerContentType] = []string{grpcContentTypeFromCodecName(g.web, grpcCodecFromContentType(g.web, request.Header.Get(headerContentType)))}\n\theader[grpcHeaderAcceptCompression]"),
    ("C06", "uncoded-errors-not-wrapped-on-client", "protocol.go",
     "func (cc *errorTranslatingClientConn) Receive(msg any) error {\n\treturn cc.fromWire(cc.StreamingClientConn.Receive(msg))", "func (cc *errorTranslatingClientConn) Receive(msg any) error {\n\treturn cc.StreamingClientConn.Receive(msg)"),
    ("C06", "http-503-maps-to-unknown", "protocol_connect.go",
     "\tcase 502, 503, 504:\n\t\treturn CodeUnavailable\n\tdefault:\n\t\treturn CodeUnknown\n\t}\n}\n\n// connectUserAgent", "\tcase 502, 504:\n\t\treturn CodeUnavailable\n\tdefault:\n\t\treturn CodeUnknown\n\t}\n}\n\n// connectUserAgent"),
    ("C07", "timeout-error-ignored", "handler.go",
     "\tif timeoutErr != nil {\n\t\t_ = connCloser.Close(timeoutErr)\n\t\treturn\n\t}\n", ""),
    ("C07", "flag-validation-dropped-connect", "protocol_connect.go",
     "\tif !env.IsSet(connectFlagEnvelopeEndStream) {\n\t\treturn errorf(CodeInternal, \"protocol error: invalid envelope flags %d\", env.Flags)\n\t}", "\tif !env.IsSet(connectFlagEnvelopeEndStream) {\n\t\treturn errSpecialEnvelope\n\t}"),
    ("C08", "pick-last-accepted-algorithm", "protocol.go",
     "\t\t\t\tresponseCompression = name\n\t\t\t\tbreak\n", "\t\t\t\tresponseCompression = name\n"),
    ("C08", "threshold-off-by-one", "envelope.go",
     "env.Data.Len() < w.compressMinBytes {", "env.Data.Len() < w.compressMinBytes-1 {"),
    ("C09", "limit-off-by-one", "envelope.go",
     "if r.readMaxBytes > 0 && size > r.readMaxBytes {", "if r.readMaxBytes > 0 && size >= r.readMaxBytes {"),
    ("C09", "no-limit-on-decompress-unary", "protocol_connect.go",
     "u.compressionPool.Decompress(decompressed, data, int64(u.readMaxBytes))", "u.compressionPool.Decompress(decompressed, data, 0)"),
    ("C10", "grpc-timeout-rounds-up", "protocol_grpc.go",
     "digits := strconv.FormatInt(int64(timeout/pair.size), 10 /* base */)", "digits := strconv.FormatInt(int64((timeout+pair.size-1)/pair.size), 10 /* base */)"),
    ("C10", "connect-timeout-truncated-instead-of-omitted", "protocol_connect.go",
     "\t\t\tif len(encoded) <= 10 {\n\t\t\t\theader[connectHeaderTimeout] = []string{encoded}\n\t\t\t} // else effectively unbounded", "\t\t\tif len(encoded) > 10 {\n\t\t\t\tencoded = encoded[:10]\n\t\t\t}\n\t\t\theader[connectHeaderTimeout] = []string{encoded}"),
    ("C10", "nine-digit-grpc-timeouts-accepted", "protocol_grpc.go",
     "if num > 99999999 {", "if num > 999999999 {"),
    ("C11", "merge-headers-overwrites", "header.go",
     "\t\tinto[k] = append(into[k], vals...)\n", "\t\tinto[k] = vals\n"),
    ("C11", "padded-base64-rejected", "header.go",
     "\tif len(data)%4 != 0 {", "\tif true {"),
    ("C12", "content-type-prefix-match", "handler.go",
     "\t\tif _, ok := handler.ContentTypes()[contentType]; ok {", "\t\tok := false\n\t\tfor ct := range handler.ContentTypes() {\n\t\t\tif len(contentType) >= len(ct) && contentType[:len(ct)] == ct {\n\t\t\t\tok = true\n\t\t\t}\n\t\t}\n\t\tif ok {"),
    ("C12", "bare-grpc-web-type-forgotten", "protocol_grpc.go",
     "\tif params.Codecs.Get(codecNameProto) != nil {\n\t\tcontentTypes[bare] = struct{}{}\n\t}", "\tif params.Codecs.Get(codecNameProto) != nil && !g.web {\n\t\tcontentTypes[bare] = struct{}{}\n\t}"),
    ("C13", "end-stream-envelope-aliases-pooled-buffer", "envelope.go",
     "\t\tr.last = envelope{\n\t\t\tData:  r.bufferPool.Get(),\n\t\t\tFlags: env.Flags,\n\t\t}", "\t\tr.last = envelope{\n\t\t\tData:  bytes.NewBuffer(data.Bytes()),\n\t\t\tFlags: env.Flags,\n\t\t}\n\t\tif r.last.Data.Len() >= 0 {\n\t\t\treturn errSpecialEnvelope\n\t\t}"),
    ("C14", "seterror-does-not-close-pipe", "duplex_http_call.go",
     "\t_ = d.requestBodyReader.Close()\n\td.finish()\n", "\td.finish()\n"),
    ("C14", "closeread-does-not-close-body", "duplex_http_call.go",
     "\treturn d.wrapResponseBodyError(d.response.Body.Close())\n", "\treturn nil\n"),
    ("C15", "deadline-mapped-to-canceled", "error.go",
     "\tif errors.Is(err, context.DeadlineExceeded) {\n\t\treturn NewError(CodeDeadlineExceeded, err)\n\t}", "\tif errors.Is(err, context.DeadlineExceeded) {\n\t\treturn NewError(CodeCanceled, err)\n\t}"),
    ("C15", "read-does-not-check-context", "duplex_http_call.go",
     "\t// Before we read, check if the context has been canceled.\n\tif err := d.ctx.Err(); err != nil {\n\t\td.SetError(err)\n\t\treturn 0, wrapIfContextError(err)\n\t}\n", ""),
    ("C16", "chain-not-reversed", "interceptor.go",
     "\tfor i := len(interceptors) - 1; i >= 0; i-- {", "\tfor i := 0; i < len(interceptors); i++ {"),
    ("C16", "second-group-prepended", "option.go",
     "\treturn newChain(append([]Interceptor{current}, o.Interceptors...))", "\treturn newChain(append(append([]Interceptor{}, o.Interceptors...), current))"),
    ("C17", "client-and-server-stream-handlers-swapped", "cmd/protoc-gen-connect-go/main.go",
     "case isStreamingClient && !isStreamingServer:\n\t\t\tg.P(`mux.Handle(\"`, procedureName(method), `\", `, connectPackage.Ident(\"NewClientStreamHandler\"), \"(\")", "case isStreamingClient && !isStreamingServer && len(service.Methods) < 4:\n\t\t\tg.P(`mux.Handle(\"`, procedureName(method), `\", `, connectPackage.Ident(\"NewClientStreamHandler\"), \"(\")"),
    ("C17", "procedure-from-go-name", "cmd/protoc-gen-connect-go/main.go",
     "\t\treflectionName(method.Parent),\n\t\tmethod.Desc.Name(),", "\t\treflectionName(method.Parent),\n\t\tmethod.GoName,"),
    ("C18", "tilde-escaped-boundary", "protocol_grpc.go",
     "\t\tif c < ' ' || c > '~' || c == '%' {\n\t\t\tout.WriteString", "\t\tif c < ' ' || c >= '~' || c == '%' {\n\t\t\tout.WriteString"),
    ("C18", "code-text-parsed-as-int32", "code.go",
     "strconv.ParseInt(dataStr, 10 /* base */, 64 /* bitsize */)", "strconv.ParseInt(dataStr, 10 /* base */, 32 /* bitsize */)"),
    ("C19", "recover-nil-idiom", "recover.go",
     "\t\t\tif panicked {\n\t\t\t\tr := recover()\n\t\t\t\t// net/http checks for ErrAbortHandler with ==, so we should too.\n\t\t\t\tif r == http.ErrAbortHandler { // nolint:errorlint,goerr113\n\t\t\t\t\tpanic(r) // nolint:forbidigo\n\t\t\t\t}\n\t\t\t\tretErr = i.handle(ctx, Spec{}, nil, r)\n\t\t\t}", "\t\t\tif r := recover(); r != nil {\n\t\t\t\tif r == http.ErrAbortHandler { // nolint:errorlint,goerr113\n\t\t\t\t\tpanic(r) // nolint:forbidigo\n\t\t\t\t}\n\t\t\t\tretErr = i.handle(ctx, Spec{}, nil, r)\n\t\t\t}\n\t\t\t_ = panicked"),
    ("C19", "abort-sentinel-swallowed-unary", "recover.go",
     "\t\t\t\tif r == http.ErrAbortHandler { // nolint:errorlint,goerr113\n\t\t\t\t\tpanic(r) // nolint:forbidigo\n\t\t\t\t}\n\t\t\t\tretErr = i.handle(ctx, req.Spec(), req.Header(), r)", "\t\t\t\tretErr = i.handle(ctx, req.Spec(), req.Header(), r)"),
]


def sh(cmd, **kw):
    return subprocess.run(cmd, shell=True, stdout=subprocess.PIPE, stderr=subprocess.STDOUT, text=True, **kw)


def main():
    want = set(sys.argv[1:])
    assert sh("git -C %s status --porcelain" % REPO).stdout.strip() == "", "/repo is not clean"
    results = []
    for pid, name, fname, old, new in MUTANTS:
        if want and pid not in want:
            continue
        path = os.path.join(REPO, fname)
        src = open(path).read()
        if src.count(old) != 1:
            results.append((pid, name, "SKIP: anchor found %d times" % src.count(old)))
            print(results[-1])
            continue
        try:
            open(path, "w").write(src.replace(old, new))
            b = sh("cd %s && GOFLAGS=-mod=mod GOPROXY=off go build ./... 2>&1 | tail -3" % REPO)
            if b.stdout.strip():
                results.append((pid, name, "SKIP: does not compile: " + b.stdout.strip()[:200]))
                print(results[-1])
                continue
            suite = sh("cd %s && GOFLAGS=-mod=mod GOPROXY=off go test -vet=off -count=1 ./... 2>&1 | grep -c '^ok'" % REPO)
            suite_ok = suite.stdout.strip() == "2"
            t0 = time.time()
            r = sh("cd %s && VERIF_EVIDENCE_DIR=/verif/.run/evidence-mutated ./verif check %s quick" % (ROOT, pid))
            killed = r.returncode == 1 and "VIOLATION property=%s" % pid in r.stdout
            results.append((pid, name, "%s (rc=%d, %.0fs)%s" % ("KILLED" if killed else "SURVIVED", r.returncode, time.time() - t0, "" if suite_ok else " [note: the repo's own suite also fails]")))
            print(results[-1], flush=True)
        finally:
            sh("git -C %s checkout -- ." % REPO)
    json.dump(results, open(os.path.join(ROOT, "selfmutants.last.json"), "w"), indent=1)
    surv = [r for r in results if r[2].startswith("SURVIVED")]
    print("%d mutants, %d killed, %d survived, %d skipped" % (len(results), sum(r[2].startswith("KILLED") for r in results), len(surv), sum(r[2].startswith("SKIP") for r in results)))
    return 1 if surv else 0


if __name__ == "__main__":
    sys.exit(main())
