// Package comp provides the compression universe used by the checks: gzip
// (connect's default), deflate, zlib and a deliberately stateful toy codec
// whose output is garbage unless Reset is honoured on every path.
package comp

import (
	"bytes"
	"compress/flate"
	"compress/gzip"
	"compress/zlib"
	"encoding/binary"
	"errors"
	"fmt"
	"hash/crc32"
	"io"
	"sync/atomic"

	connect "github.com/bufbuild/connect-go"
)

var Universe = []string{"gzip", "deflate", "zlib", "toy"}

// Counters observable by checks.
var (
	ToyResets atomic.Int64
	ToyNew    atomic.Int64
)

type flateDecomp struct{ rc io.ReadCloser }

func (d *flateDecomp) Read(p []byte) (int, error) { return d.rc.Read(p) }
func (d *flateDecomp) Close() error               { return d.rc.Close() }
func (d *flateDecomp) Reset(r io.Reader) error    { return d.rc.(flate.Resetter).Reset(r, nil) }

type zlibDecomp struct{ rc io.ReadCloser }

func (d *zlibDecomp) Read(p []byte) (int, error) {
	if d.rc == nil {
		return 0, errors.New("zlib: reader not initialised")
	}
	return d.rc.Read(p)
}
func (d *zlibDecomp) Close() error {
	if d.rc == nil {
		return nil
	}
	return d.rc.Close()
}
func (d *zlibDecomp) Reset(r io.Reader) error {
	if d.rc == nil {
		rc, err := zlib.NewReader(r)
		if err != nil {
			return err
		}
		d.rc = rc
		return nil
	}
	return d.rc.(zlib.Resetter).Reset(r, nil)
}

// ---- toy codec ----
// format: "TOY1" | bytes XOR keystream (key_{i+1} = key_i*31+7, key_0 = 0x5a) | crc32(plain) BE
type toyComp struct {
	w       io.Writer
	key     byte
	started bool
	crc     uint32
	closed  bool
}

func (c *toyComp) Reset(w io.Writer) {
	c.w, c.key, c.started, c.crc, c.closed = w, 0x5a, false, 0, false
}
func (c *toyComp) start() error {
	if c.started {
		return nil
	}
	c.started = true
	_, err := c.w.Write([]byte("TOY1"))
	return err
}
func (c *toyComp) Write(p []byte) (int, error) {
	if c.closed {
		return 0, errors.New("toy: write after close")
	}
	if err := c.start(); err != nil {
		return 0, err
	}
	out := make([]byte, len(p))
	for i, b := range p {
		out[i] = b ^ c.key
		c.key = c.key*31 + 7
	}
	c.crc = crc32.Update(c.crc, crc32.IEEETable, p)
	if _, err := c.w.Write(out); err != nil {
		return 0, err
	}
	return len(p), nil
}
func (c *toyComp) Close() error {
	if c.closed {
		return nil
	}
	if err := c.start(); err != nil {
		return err
	}
	c.closed = true
	var t [4]byte
	binary.BigEndian.PutUint32(t[:], c.crc)
	_, err := c.w.Write(t[:])
	return err
}

type toyDecomp struct {
	r      io.Reader
	plain  *bytes.Reader
	err    error
	loaded bool
	key    byte // deliberately NOT reset in load(): only Reset restores it
}

func (d *toyDecomp) Reset(r io.Reader) error {
	ToyResets.Add(1)
	d.r, d.plain, d.err, d.loaded, d.key = r, nil, nil, false, 0x5a
	return nil
}
func (d *toyDecomp) load() {
	if d.loaded {
		return
	}
	d.loaded = true
	if d.r == nil {
		d.err = errors.New("toy: no source")
		return
	}
	raw, err := io.ReadAll(d.r)
	if err != nil {
		d.err = err
		return
	}
	if len(raw) < 8 || string(raw[:4]) != "TOY1" {
		d.err = errors.New("toy: bad header")
		return
	}
	body := raw[4 : len(raw)-4]
	out := make([]byte, len(body))
	for i, b := range body {
		out[i] = b ^ d.key
		d.key = d.key*31 + 7
	}
	if crc32.ChecksumIEEE(out) != binary.BigEndian.Uint32(raw[len(raw)-4:]) {
		d.err = errors.New("toy: checksum mismatch")
		return
	}
	d.plain = bytes.NewReader(out)
}
func (d *toyDecomp) Read(p []byte) (int, error) {
	d.load()
	if d.err != nil {
		return 0, d.err
	}
	return d.plain.Read(p)
}
func (d *toyDecomp) Close() error { return nil }

// Gate lets a check pause one decompression in mid-flight: the first Read of
// any harness-provided decompressor after the gate was armed signals Reached
// and blocks until Release is closed. Used to overlap two calls on one pool
// deterministically.
type Gate struct {
	armed   atomic.Bool
	Reached chan struct{}
	Release chan struct{}
}

var currentGate atomic.Pointer[Gate]

// ArmGate installs and arms a fresh gate.
func ArmGate() *Gate {
	g := &Gate{Reached: make(chan struct{}), Release: make(chan struct{})}
	g.armed.Store(true)
	currentGate.Store(g)
	return g
}

// DisarmGate removes the gate (a decompression blocked on it stays blocked
// until Release is closed).
func DisarmGate() { currentGate.Store(nil) }

type gated struct {
	connect.Decompressor
	fresh bool
}

func (g *gated) Reset(r io.Reader) error {
	g.fresh = true
	return g.Decompressor.Reset(r)
}

func (g *gated) Read(p []byte) (int, error) {
	if g.fresh {
		g.fresh = false
		if gt := currentGate.Load(); gt != nil && gt.armed.CompareAndSwap(true, false) {
			close(gt.Reached)
			<-gt.Release
		}
	}
	return g.Decompressor.Read(p)
}

// New returns constructor functions for a named algorithm. Decompressors are
// wrapped so that a Gate can pause them.
func New(name string) (func() connect.Decompressor, func() connect.Compressor) {
	d, c := newRaw(name)
	return func() connect.Decompressor { return &gated{Decompressor: d()} }, c
}

func newRaw(name string) (func() connect.Decompressor, func() connect.Compressor) {
	switch name {
	case "gzip":
		return func() connect.Decompressor { return &gzip.Reader{} },
			func() connect.Compressor { return gzip.NewWriter(io.Discard) }
	case "deflate":
		return func() connect.Decompressor { return &flateDecomp{rc: flate.NewReader(bytes.NewReader(nil))} },
			func() connect.Compressor { w, _ := flate.NewWriter(io.Discard, flate.BestSpeed); return w }
	case "zlib":
		return func() connect.Decompressor { return &zlibDecomp{} },
			func() connect.Compressor { return zlib.NewWriter(io.Discard) }
	case "toy":
		return func() connect.Decompressor { ToyNew.Add(1); d := &toyDecomp{}; d.key = 0x5a; return d },
			func() connect.Compressor { c := &toyComp{}; c.Reset(io.Discard); return c }
	}
	panic("unknown compression " + name)
}

// Decompress is the harness's own decompressor (independent of the pools).
func Decompress(name string, data []byte) ([]byte, error) {
	switch name {
	case "gzip":
		r, err := gzip.NewReader(bytes.NewReader(data))
		if err != nil {
			return nil, err
		}
		return io.ReadAll(r)
	case "deflate":
		return io.ReadAll(flate.NewReader(bytes.NewReader(data)))
	case "zlib":
		r, err := zlib.NewReader(bytes.NewReader(data))
		if err != nil {
			return nil, err
		}
		return io.ReadAll(r)
	case "toy":
		d := &toyDecomp{}
		_ = d.Reset(bytes.NewReader(data))
		ToyResets.Add(-1)
		return io.ReadAll(d)
	}
	return nil, fmt.Errorf("unknown compression %q", name)
}

// Compress is the harness's own compressor.
func Compress(name string, data []byte) []byte {
	var buf bytes.Buffer
	var w io.WriteCloser
	switch name {
	case "gzip":
		w = gzip.NewWriter(&buf)
	case "deflate":
		w, _ = flate.NewWriter(&buf, flate.BestSpeed)
	case "zlib":
		w = zlib.NewWriter(&buf)
	case "toy":
		c := &toyComp{}
		c.Reset(&buf)
		w = c
	default:
		panic("unknown compression " + name)
	}
	_, _ = w.Write(data)
	_ = w.Close()
	return buf.Bytes()
}
