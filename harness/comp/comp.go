// Package comp provides the compression universe used by the checks: gzip
// (connect's default), deflate, zlib and a deliberately stateful toy codec
// whose output is garbage unless Reset is honoured on every path.
package comp

import (
	"bytes"
	"compress/flate"
	"compress/gzip"
	"compress/zlib"
	"encoding/binary"
	"errors"
	"fmt"
	"hash/crc32"
	"io"
	"sync/atomic"

	connect "github.com/bufbuild/connect-go"
)

var Universe = []string{"gzip", "deflate", "zlib", "toy"}

// Counters observable by checks.
var (
	ToyResets atomic.Int64
	ToyNew    atomic.Int64
)

type flateDecomp struct{ rc io.ReadCloser }

func (d *flateDecomp) Read(p []byte) (int, error) { return d.rc.Read(p) }
func (d *flateDecomp) Close() error               { return d.rc.Close() }
func (d *flateDecomp) Reset(r io.Reader) error    { return d.rc.(flate.Resetter).Reset(r, nil) }

type zlibDecomp struct{ rc io.ReadCloser }

func (d *zlibDecomp) Read(p []byte) (int, error) {
	if d.rc == nil {
		return 0, errors.New("zlib: reader not initialised")
	}
	return d.rc.Read(p)
}
func (d *zlibDecomp) Close() error {
	if d.rc == nil {
		return nil
	}
	return d.rc.Close()
}
func (d *zlibDecomp) Reset(r io.Reader) error {
	if d.rc == nil {
		rc, err := zlib.NewReader(r)
		if err != nil {
			return err
		}
		d.rc = rc
		return nil
	}
	return d.rc.(zlib.Resetter).Reset(r, nil)
}

// ---- toy codec ----
// format: "TOY1" | bytes XOR keystream (key_{i+1} = key_i*31+7, key_0 = 0x5a) | crc32(plain) BE
type toyComp struct {
	w       io.Writer
	key     byte
	started bool
	crc     uint32
	closed  bool
}

func (c *toyComp) Reset(w io.Writer) {
	c.w, c.key, c.started, c.crc, c.closed = w, 0x5a, false, 0, false
}
func (c *toyComp) start() error {
	if c.started {
		return nil
	}
	c.started = true
	_, err := c.w.Write([]byte("TOY1"))
	return err
}
func (c *toyComp) Write(p []byte) (int, error) {
	if c.closed {
		return 0, errors.New("toy: write after close")
	}
	if err := c.start(); err != nil {
		return 0, err
	}
	out := make([]byte, len(p))
	for i, b := range p {
		out[i] = b ^ c.key
		c.key = c.key*31 + 7
	}
	c.crc = crc32.Update(c.crc, crc32.IEEETable, p)
	if _, err := c.w.Write(out); err != nil {
		return 0, err
	}
	return len(p), nil
}
func (c *toyComp) Close() error {
	if c.closed {
		return nil
	}
	if err := c.start(); err != nil {
		return err
	}
	c.closed = true
	var t [4]byte
	binary.BigEndian.PutUint32(t[:], c.crc)
	_, err := c.w.Write(t[:])
	return err
}

type toyDecomp struct {
	r      io.Reader
	plain  *bytes.Reader
	err    error
	loaded bool
	key    byte // deliberately NOT reset in load(): only Reset restores it
}

func (d *toyDecomp) Reset(r io.Reader) error {
	ToyResets.Add(1)
	d.r, d.plain, d.err, d.loaded, d.key = r, nil, nil, false, 0x5a
	return nil
}
func (d *toyDecomp) load() {
	if d.loaded {
		return
	}
	d.loaded = true
	if d.r == nil {
		d.err = errors.New("toy: no source")
		return
	}
	raw, err := io.ReadAll(d.r)
	if err != nil {
		d.err = err
		return
	}
	if len(raw) < 8 || string(raw[:4]) != "TOY1" {
		d.err = errors.New("toy: bad header")
		return
	}
	body := raw[4 : len(raw)-4]
	out := make([]byte, len(body))
	for i, b := range body {
		out[i] = b ^ d.key
		d.key = d.key*31 + 7
	}
	if crc32.ChecksumIEEE(out) != binary.BigEndian.Uint32(raw[len(raw)-4:]) {
		d.err = errors.New("toy: checksum mismatch")
		return
	}
	d.plain = bytes.NewReader(out)
}
func (d *toyDecomp) Read(p []byte) (int, error) {
	d.load()
	if d.err != nil {
		return 0, d.err
	}
	return d.plain.Read(p)
}
func (d *toyDecomp) Close() error { return nil }

// Gate lets a check pause one decompression in mid-flight: the first Read of
// any harness-provided decompressor after the gate was armed signals Reached
// and blocks until Release is closed. Used to overlap two calls on one pool
// deterministically.
type Gate struct {
	armed   atomic.Bool
	Reached chan struct{}
	Release chan struct{}
}

var currentGate atomic.Pointer[Gate]

// ArmGate installs and arms a fresh gate.
func ArmGate() *Gate {
	g := &Gate{Reached: make(chan struct{}), Release: make(chan struct{})}
	g.armed.Store(true)
	currentGate.Store(g)
	return g
}

// DisarmGate removes the gate (a decompression blocked on it stays blocked
// until Release is closed).
func DisarmGate() { currentGate.Store(nil) }

type gated struct {
	connect.Decompressor
	fresh bool
}

func (g *gated) Reset(r io.Reader) error {
	g.fresh = true
	return g.Decompressor.Reset(r)
}

func (g *gated) Read(p []byte) (int, error) {
	if g.fresh {
		g.fresh = false
		if gt := currentGate.Load(); gt != nil && gt.armed.CompareAndSwap(true, false) {
			close(gt.Reached)
			<-gt.Release
		}
	}
	return g.Decompressor.Read(p)
}

// New returns constructor functions for a named algorithm. Decompressors are
// wrapped so that a Gate can pause them.
func New(name string) (func() connect.Decompressor, func() connect.Compressor) {
	d, c := newRaw(name)
	return func() connect.Decompressor { return &gated{Decompressor: d()} }, c
}

func newRaw(name string) (func() connect.Decompressor, func() connect.Compressor) {
	switch name {
	case "gzip":
		return func() connect.Decompressor { return &gzip.Reader{} },
			func() connect.Compressor { return gzip.NewWriter(io.Discard) }
	case "deflate":
		return func() connect.Decompressor { return &flateDecomp{rc: flate.NewReader(bytes.NewReader(nil))} },
			func() connect.Compressor { w, _ := flate.NewWriter(io.Discard, flate.BestSpeed); return w }
	case "zlib":
		return func() connect.Decompressor { return &zlibDecomp{} },
			func() connect.Compressor { return zlib.NewWriter(io.Discard) }
	case "toy":
		return func() connect.Decompressor { ToyNew.Add(1); d := &toyDecomp{}; d.key = 0x5a; return d },
			func() connect.Compressor { c := &toyComp{}; c.Reset(io.Discard); return c }
	case "rle":
		return func() connect.Decompressor { return &rleDecomp{} },
			func() connect.Compressor { return &rleComp{w: io.Discard} }
	case "gzipmm":
		// registered under the wire name "gzip" (see WireName): a peer whose
		// gzip writer emits several members per message, which RFC 1952 allows
		// and every gzip reader is expected to concatenate
		return func() connect.Decompressor { return &gzip.Reader{} },
			func() connect.Compressor { return &gzipMM{w: io.Discard} }
	}
	panic("unknown compression " + name)
}

// Decompress is the harness's own decompressor (independent of the pools).
func Decompress(name string, data []byte) ([]byte, error) {
	switch name {
	case "gzip":
		r, err := gzip.NewReader(bytes.NewReader(data))
		if err != nil {
			return nil, err
		}
		return io.ReadAll(r)
	case "deflate":
		return io.ReadAll(flate.NewReader(bytes.NewReader(data)))
	case "zlib":
		r, err := zlib.NewReader(bytes.NewReader(data))
		if err != nil {
			return nil, err
		}
		return io.ReadAll(r)
	case "toy":
		d := &toyDecomp{}
		_ = d.Reset(bytes.NewReader(data))
		ToyResets.Add(-1)
		return io.ReadAll(d)
	case "rle":
		d := &rleDecomp{}
		if err := d.Reset(bytes.NewReader(data)); err != nil {
			return nil, err
		}
		return io.ReadAll(d)
	}
	return nil, fmt.Errorf("unknown compression %q", name)
}

// Compress is the harness's own compressor.
func Compress(name string, data []byte) []byte {
	var buf bytes.Buffer
	var w io.WriteCloser
	switch name {
	case "gzip":
		w = gzip.NewWriter(&buf)
	case "deflate":
		w, _ = flate.NewWriter(&buf, flate.BestSpeed)
	case "zlib":
		w = zlib.NewWriter(&buf)
	case "toy":
		c := &toyComp{}
		c.Reset(&buf)
		w = c
	case "rle":
		w = &rleComp{w: &buf}
	default:
		panic("unknown compression " + name)
	}
	_, _ = w.Write(data)
	_ = w.Close()
	return buf.Bytes()
}

// ---- rle codec ----
// A user-registered algorithm with an unbounded compression ratio (not part of
// Universe): "RLE1" | (uvarint run length, byte)*. A megabyte of one byte is
// seven bytes on the wire; the decompressor streams, so a receiver that bounds
// what it reads never materialises more than it asked for.
type rleComp struct {
	w   io.Writer
	buf []byte
}

func (c *rleComp) Reset(w io.Writer)           { c.w, c.buf = w, c.buf[:0] }
func (c *rleComp) Write(p []byte) (int, error) { c.buf = append(c.buf, p...); return len(p), nil }
func (c *rleComp) Close() error {
	out := []byte("RLE1")
	for i := 0; i < len(c.buf); {
		j := i
		for j < len(c.buf) && c.buf[j] == c.buf[i] {
			j++
		}
		out = binary.AppendUvarint(out, uint64(j-i))
		out = append(out, c.buf[i])
		i = j
	}
	c.buf = c.buf[:0]
	_, err := c.w.Write(out)
	return err
}

type rleDecomp struct {
	src  []byte
	err  error
	left uint64
	b    byte
}

func (d *rleDecomp) Reset(r io.Reader) error {
	raw, err := io.ReadAll(r)
	d.src, d.err, d.left = nil, nil, 0
	if err != nil {
		return err
	}
	if len(raw) < 4 || string(raw[:4]) != "RLE1" {
		return errors.New("rle: bad header")
	}
	d.src = raw[4:]
	return nil
}

func (d *rleDecomp) Read(p []byte) (int, error) {
	n := 0
	for n < len(p) {
		if d.left == 0 {
			if d.err != nil {
				break
			}
			if len(d.src) == 0 {
				d.err = io.EOF
				break
			}
			run, k := binary.Uvarint(d.src)
			if k <= 0 || k >= len(d.src) || run == 0 {
				d.err = errors.New("rle: corrupt run")
				break
			}
			d.left, d.b, d.src = run, d.src[k], d.src[k+1:]
		}
		m := uint64(len(p) - n)
		if m > d.left {
			m = d.left
		}
		for i := uint64(0); i < m; i++ {
			p[n+int(i)] = d.b
		}
		n += int(m)
		d.left -= m
	}
	if n == 0 && d.err != nil {
		return 0, d.err
	}
	return n, nil
}

func (d *rleDecomp) Close() error { return nil }

// WireName is the name an algorithm of this package is registered under.
func WireName(name string) string {
	if name == "gzipmm" {
		return "gzip"
	}
	return name
}

// gzipMM writes each message as two gzip members.
type gzipMM struct {
	w   io.Writer
	buf []byte
}

func (c *gzipMM) Reset(w io.Writer)           { c.w, c.buf = w, c.buf[:0] }
func (c *gzipMM) Write(p []byte) (int, error) { c.buf = append(c.buf, p...); return len(p), nil }
func (c *gzipMM) Close() error {
	half := len(c.buf) / 2
	for _, part := range [][]byte{c.buf[:half], c.buf[half:]} {
		zw := gzip.NewWriter(c.w)
		if _, err := zw.Write(part); err != nil {
			return err
		}
		if err := zw.Close(); err != nil {
			return err
		}
	}
	c.buf = c.buf[:0]
	return nil
}
