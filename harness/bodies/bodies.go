// Package bodies generates valid request/response bodies with the reference
// encoder; shared by the segmentation (C03) and truncation (C04) checks.
package bodies

import (
	"fmt"
	"strings"

	"github.com/bufbuild/connect-go/verif/prog"
	"github.com/bufbuild/connect-go/verif/refwire"
	"pgregory.net/rapid"
)

// Spec describes a valid body (response or request) to build with refwire.
type Spec struct {
	Protocol string        `json:"protocol"`
	Kind     string        `json:"kind"`
	Codec    string        `json:"codec"`
	Msgs     []prog.Msg    `json:"msgs"`
	Encoding string        `json:"encoding,omitempty"`
	Compress []bool        `json:"compress,omitempty"`
	ErrCode  uint32        `json:"err_code,omitempty"`
	ErrMsg   string        `json:"err_msg,omitempty"`
	// ErrDetails: number of Any-wrapped detail messages the error carries
	// (detail i wraps a PingRequest{number: i+1, text: "detail"}).
	ErrDetails int `json:"err_details,omitempty"`
	Trailer  []prog.KV     `json:"trailer,omitempty"`
	Knobs    refwire.Knobs `json:"knobs"`
}

func (b Spec) EncMsgs() [][]byte {
	var out [][]byte
	for _, m := range b.Msgs {
		out = append(out, refwire.EncodePing(b.Codec, m.N, m.Text()))
	}
	return out
}

func (b Spec) ContentType() string { return refwire.ContentType(b.Protocol, b.Kind, b.Codec) }

func (b Spec) Response() (*refwire.Response, error) {
	return refwire.BuildResponse(&refwire.RespSpec{
		Protocol: b.Protocol, Kind: b.Kind, ContentType: b.ContentType(),
		Msgs: b.EncMsgs(), Encoding: b.Encoding, CompressMsg: b.Compress,
		Status:  refwire.Status{Code: b.ErrCode, Message: b.ErrMsg, Details: b.Details()},
		Trailer: prog.KVMap(b.Trailer), Knobs: b.Knobs,
	})
}

// Details are the error details of the response (none for successes).
func (b Spec) Details() []refwire.Detail {
	var out []refwire.Detail
	for i := 0; i < b.ErrDetails && b.ErrCode != 0; i++ {
		out = append(out, refwire.Detail{TypeURL: "type.googleapis.com/connect.ping.v1.PingRequest", Value: refwire.EncodePing("proto", int64(i+1), "detail")})
	}
	return out
}

func (b Spec) Request() *refwire.Request {
	return refwire.BuildRequest(&refwire.ReqSpec{
		Protocol: b.Protocol, Kind: b.Kind, Codec: b.Codec, Msgs: b.EncMsgs(),
		Encoding: b.Encoding, CompressMsg: b.Compress, Knobs: b.Knobs,
	})
}

// MultiMsg reports whether the direction carries a message stream.
func MultiMsg(dir, kind string) bool {
	return (dir == "response" && (kind == prog.Server || kind == prog.Bidi)) || (dir == "request" && (kind == prog.Client || kind == prog.Bidi))
}

// Gen draws a body spec for the given direction.
func Gen(t *rapid.T, dir string, sizes []int) Spec {
	b := Spec{
		Protocol: rapid.SampledFrom(prog.Protocols).Draw(t, "protocol"),
		Kind:     rapid.SampledFrom(prog.Kinds).Draw(t, "kind"),
		Codec:    rapid.SampledFrom(prog.Codecs).Draw(t, "codec"),
	}
	n := 1
	multi := MultiMsg(dir, b.Kind)
	if multi {
		n = rapid.IntRange(0, 4).Draw(t, "n")
	}
	b.Encoding = rapid.SampledFrom([]string{"", "", "gzip", "deflate", "zlib", "toy"}).Draw(t, "encoding")
	for i := 0; i < n; i++ {
		m := prog.Msg{}
		if rapid.IntRange(0, 3).Draw(t, "nonzero") > 0 {
			m.N = rapid.Int64Range(-5, 1000).Draw(t, "n")
			m.TLen = rapid.SampledFrom(sizes).Draw(t, "tlen")
			m.TSeed = rapid.IntRange(0, 1999).Draw(t, "tseed")
		}
		b.Msgs = append(b.Msgs, m)
		b.Compress = append(b.Compress, b.Encoding != "" && rapid.Bool().Draw(t, "compress"))
	}
	if dir == "response" {
		if rapid.IntRange(0, 3).Draw(t, "fail") == 0 {
			b.ErrCode = uint32(rapid.IntRange(1, 16).Draw(t, "code"))
			b.ErrMsg = rapid.SampledFrom([]string{"", "boom", "percent % and ünïcode", "line\nbreak", "a", "ab", "abc"}).Draw(t, "errmsg")
			b.ErrDetails = rapid.SampledFrom([]int{0, 0, 1, 2}).Draw(t, "errdetails")
			if !multi {
				b.Msgs, b.Compress = nil, nil
			}
		}
		nt := rapid.IntRange(0, 2).Draw(t, "ntrailer")
		for i := 0; i < nt; i++ {
			b.Trailer = append(b.Trailer, prog.KV{K: fmt.Sprintf("X-T%d", i), V: rapid.StringMatching("[a-z0-9]([a-z0-9 ,;]{0,10}[a-z0-9])?").Draw(t, "tv")})
		}
		b.Knobs = refwire.Knobs{
			LowerHex: rapid.Bool().Draw(t, "lowerhex"), PadBase64: rapid.Bool().Draw(t, "pad"),
			LowerKeys: rapid.Bool().Draw(t, "lowerkeys"), FinalCRLF: rapid.Bool().Draw(t, "crlf"),
			OmitDetailsBin: rapid.Bool().Draw(t, "omitdetails"),
		}
		if b.Knobs.OmitDetailsBin && b.ErrMsg != "" {
			// without the binary status the message travels only in grpc-message,
			// whose edge blanks HTTP does not preserve
			b.ErrMsg = strings.Trim(b.ErrMsg, " ")
		}
	}
	return b
}

// FrameBounds returns the offsets at which envelopes start and end, and a
// predicate telling whether an offset lies strictly inside a 5-byte prefix.
func FrameBounds(body []byte, enveloped bool) (inPrefix func(int) bool, boundaries map[int]bool) {
	boundaries = map[int]bool{0: true, len(body): true}
	type rng struct{ lo, hi int }
	var ps []rng
	if enveloped {
		off := 0
		for off+5 <= len(body) {
			n := int(body[off+1])<<24 | int(body[off+2])<<16 | int(body[off+3])<<8 | int(body[off+4])
			ps = append(ps, rng{off, off + 5})
			boundaries[off] = true
			boundaries[off+5] = true
			off += 5 + n
			if off > len(body) {
				break
			}
			boundaries[off] = true
		}
	}
	return func(c int) bool {
		for _, p := range ps {
			if c > p.lo && c < p.hi {
				return true
			}
		}
		return false
	}, boundaries
}
