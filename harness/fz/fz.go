// Package fz holds the byte-level decoding helpers shared by the native fuzz
// targets: header blobs are read the way an HTTP transport would deliver them.
package fz

import (
	"net/http"
	"strings"

	"github.com/bufbuild/connect-go/verif/prog"
)

func tokenOK(k string) bool {
	if k == "" {
		return false
	}
	for i := 0; i < len(k); i++ {
		c := k[i]
		if !(c >= 'a' && c <= 'z' || c >= 'A' && c <= 'Z' || c >= '0' && c <= '9' || strings.IndexByte("!#$%&'*+-.^_`|~", c) >= 0) {
			return false
		}
	}
	return true
}

func valueOK(v string) bool {
	for i := 0; i < len(v); i++ {
		if c := v[i]; (c < 0x20 && c != '\t') || c == 0x7f {
			return false
		}
	}
	return true
}

// ParseFields reads "Key: value" lines: canonical keys, optional whitespace
// around values stripped, lines that no transport could deliver dropped.
func ParseFields(blob string) []prog.KV {
	var out []prog.KV
	for _, line := range strings.Split(blob, "\n") {
		k, v, ok := strings.Cut(line, ":")
		if !ok || !tokenOK(k) {
			continue
		}
		v = strings.Trim(v, " \t\r")
		if !valueOK(v) || len(out) >= 24 {
			continue
		}
		out = append(out, prog.KV{K: http.CanonicalHeaderKey(k), V: v})
	}
	return out
}

// FieldsBlob is the inverse of ParseFields for seeds.
func FieldsBlob(l []prog.KV) string {
	var b strings.Builder
	for _, kv := range l {
		b.WriteString(kv.K + ": " + kv.V + "\n")
	}
	return b.String()
}

// Index returns the position of s in l (0 if absent).
func Index(l []string, s string) int {
	for i, x := range l {
		if x == s {
			return i
		}
	}
	return 0
}
