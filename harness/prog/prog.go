// Package prog defines the generated "programs" (configurations, handler
// programs, client programs) interpreted by one universal handler and one
// universal client, plus the plain-data views used by oracles.
package prog

import (
	"bytes"
	"context"
	"errors"
	"fmt"
	"io"
	"net/http"
	"sort"
	"strings"
	"sync"
	"time"

	connect "github.com/bufbuild/connect-go"
	pingv1 "github.com/bufbuild/connect-go/internal/gen/connect/ping/v1"
	"github.com/bufbuild/connect-go/verif/comp"
	"google.golang.org/protobuf/encoding/protowire"
	"google.golang.org/protobuf/proto"
	"google.golang.org/protobuf/types/known/anypb"
	"google.golang.org/protobuf/types/known/durationpb"
	"google.golang.org/protobuf/types/known/structpb"
	"google.golang.org/protobuf/types/known/wrapperspb"
)

const (
	Unary  = "unary"
	Client = "client"
	Server = "server"
	Bidi   = "bidi"
)

var Kinds = []string{Unary, Client, Server, Bidi}
var Protocols = []string{"connect", "grpc", "grpcweb"}
var Codecs = []string{"proto", "json"}

func Procedure(kind string) string { return "/verif.v1.Svc/" + strings.ToUpper(kind[:1]) + kind[1:] }

// Config is one client/handler configuration.
type Config struct {
	Protocol string   `json:"protocol"`
	Codec    string   `json:"codec"`
	Kind     string   `json:"kind"`
	CAccept  []string `json:"c_accept,omitempty"` // extra algorithms registered on the client, in order (gzip is always pre-registered)
	CSend    string   `json:"c_send,omitempty"`
	CMin     int      `json:"c_min,omitempty"`
	HComp    []string `json:"h_comp,omitempty"` // extra algorithms registered on the handler, in order
	HMin     int      `json:"h_min,omitempty"`
	CReadMax int      `json:"c_readmax,omitempty"`
	HReadMax int      `json:"h_readmax,omitempty"`
}

func (c Config) ClientOptions() []connect.ClientOption {
	var opts []connect.ClientOption
	switch c.Protocol {
	case "grpc":
		opts = append(opts, connect.WithGRPC())
	case "grpcweb":
		opts = append(opts, connect.WithGRPCWeb())
	}
	if c.Codec == "json" {
		opts = append(opts, connect.WithProtoJSON())
	}
	for _, name := range c.CAccept {
		d, cm := comp.New(name)
		opts = append(opts, connect.WithAcceptCompression(comp.WireName(name), d, cm))
	}
	if c.CSend != "" {
		opts = append(opts, connect.WithSendCompression(c.CSend))
	}
	if c.CMin != 0 {
		opts = append(opts, connect.WithCompressMinBytes(c.CMin))
	}
	if c.CReadMax != 0 {
		opts = append(opts, connect.WithReadMaxBytes(c.CReadMax))
	}
	return opts
}

func (c Config) HandlerOptions() []connect.HandlerOption {
	var opts []connect.HandlerOption
	for _, name := range c.HComp {
		d, cm := comp.New(name)
		opts = append(opts, connect.WithCompression(comp.WireName(name), d, cm))
	}
	if c.HMin != 0 {
		opts = append(opts, connect.WithCompressMinBytes(c.HMin))
	}
	if c.HReadMax != 0 {
		opts = append(opts, connect.WithReadMaxBytes(c.HReadMax))
	}
	return opts
}

// Msg is the plain form of PingRequest / PingResponse.
type Msg struct {
	N int64 `json:"n"`
	// Text is described by (TLen, TSeed) to keep cases small: the text is a
	// deterministic function of both, so cross-talk and stale bytes show up.
	TLen  int `json:"tlen"`
	TSeed int `json:"tseed"`
	// Bad: the text is not valid UTF-8, so no codec can marshal the message
	Bad bool `json:"bad,omitempty"`
	// Unk: the message carries a field the receiver's schema does not know
	// (field 99, Unk bytes): content as well, for the binary codec
	Unk int `json:"unk,omitempty"`
}

// Unknown returns the wire bytes of the message's unknown field (nil if none).
func (m Msg) Unknown() []byte {
	if m.Unk <= 0 {
		return nil
	}
	out := protowire.AppendTag(nil, 99, protowire.BytesType)
	return protowire.AppendBytes(out, bytes.Repeat([]byte{'u'}, m.Unk))
}

const alphabet = "abcdefghijklmnopqrstuvwxyzABCDEFGHIJKLMNOPQRSTUVWXYZ0123456789"

// Text expands the text of a message. Seeds ≥ 1000 produce highly
// compressible text; others produce varied text.
func (m Msg) Text() string {
	if m.Bad {
		return "bad\xff\xfe"
	}
	if m.TLen <= 0 {
		return ""
	}
	b := make([]byte, m.TLen)
	if m.TSeed >= 1000 {
		for i := range b {
			b[i] = alphabet[m.TSeed%len(alphabet)]
		}
		return string(b)
	}
	x := uint32(m.TSeed)*2654435761 + 12345
	for i := range b {
		x = x*1664525 + 1013904223
		b[i] = alphabet[(x>>16)%uint32(len(alphabet))]
	}
	return string(b)
}

func (m Msg) Zero() bool { return m.N == 0 && m.TLen <= 0 }

func (m Msg) Req() *pingv1.PingRequest {
	r := &pingv1.PingRequest{Number: m.N, Text: m.Text()}
	if u := m.Unknown(); u != nil {
		r.ProtoReflect().SetUnknown(u)
	}
	return r
}

func (m Msg) Res() *pingv1.PingResponse {
	r := &pingv1.PingResponse{Number: m.N, Text: m.Text()}
	if u := m.Unknown(); u != nil {
		r.ProtoReflect().SetUnknown(u)
	}
	return r
}

// Obs is an observed message (number + full text).
type Obs struct {
	N int64
	T string
	U string // unknown fields, raw
}

func (o Obs) Equal(m Msg) bool { return o.N == m.N && o.T == m.Text() && o.U == string(m.Unknown()) }
func (o Obs) String() string {
	t := o.T
	if len(t) > 24 {
		t = fmt.Sprintf("%s…(%d)", t[:24], len(t))
	}
	if o.U != "" {
		return fmt.Sprintf("{N:%d T:%q +%d bytes of unknown fields}", o.N, t, len(o.U))
	}
	return fmt.Sprintf("{N:%d T:%q}", o.N, t)
}

func ObsReq(r *pingv1.PingRequest) Obs {
	return Obs{N: r.GetNumber(), T: r.GetText(), U: string(r.ProtoReflect().GetUnknown())}
}

func ObsRes(r *pingv1.PingResponse) Obs {
	return Obs{N: r.GetNumber(), T: r.GetText(), U: string(r.ProtoReflect().GetUnknown())}
}

// KV is an ordered header multimap entry.
type KV struct {
	K string `json:"k"`
	V string `json:"v"`
}

func ApplyKV(h http.Header, kvs []KV) {
	for _, kv := range kvs {
		h.Add(kv.K, kv.V)
	}
}

func KVMap(kvs []KV) http.Header {
	h := http.Header{}
	ApplyKV(h, kvs)
	return h
}

// DetailSpec describes one error detail message.
type DetailSpec struct {
	Kind string `json:"kind"` // ping | duration | int64 | string | struct
	N    int64  `json:"n"`
	S    string `json:"s,omitempty"`
}

func (d DetailSpec) Message() proto.Message {
	switch d.Kind {
	case "ping":
		return &pingv1.PingRequest{Number: d.N, Text: d.S}
	case "duration":
		return durationpb.New(time.Duration(d.N))
	case "int64":
		return wrapperspb.Int64(d.N)
	case "string":
		return wrapperspb.String(d.S)
	case "struct":
		s, _ := structpb.NewStruct(map[string]any{"s": d.S, "n": float64(d.N % 1000)})
		return s
	}
	return &pingv1.PingResponse{Number: d.N, Text: d.S}
}

// ErrSpec describes the error a handler returns.
type ErrSpec struct {
	Plain   bool         `json:"plain,omitempty"` // plain errors.New(Msg) instead of *connect.Error
	Code    uint32       `json:"code"`
	Msg     string       `json:"msg"`
	Details []DetailSpec `json:"details,omitempty"`
	Meta    []KV         `json:"meta,omitempty"`
	CtxErr  bool         `json:"ctx_err,omitempty"` // return ctx.Err() (after waiting for ctx.Done)
	Literal string       `json:"literal,omitempty"` // "canceled" | "deadline": return the context package's sentinel itself
	// Wrap: how the coded error is handed over: "" (itself), "w"
	// (fmt.Errorf("…: %w", e)), "join" (errors.Join(e, other)), "w2"
	// (fmt.Errorf("%w … %w", e, other)). errors.As finds it in every case.
	Wrap string `json:"wrap,omitempty"`
	// Cause: the coded error's underlying error wraps a context error
	// ("canceled" | "deadline"), as when a sub-request of the handler timed out.
	Cause string `json:"cause,omitempty"`
}

// WireMsg is the message the peer must see for a coded error.
func (e *ErrSpec) WireMsg() string {
	switch e.Cause {
	case "canceled":
		return e.Msg + ": " + context.Canceled.Error()
	case "deadline":
		return e.Msg + ": " + context.DeadlineExceeded.Error()
	}
	return e.Msg
}

func (e *ErrSpec) Build() error {
	if e == nil {
		return nil
	}
	switch e.Literal {
	case "canceled":
		if e.Wrap == "w" {
			return fmt.Errorf("handler gave up: %w", context.Canceled)
		}
		return context.Canceled
	case "deadline":
		if e.Wrap == "w" {
			return fmt.Errorf("handler gave up: %w", context.DeadlineExceeded)
		}
		return context.DeadlineExceeded
	}
	if e.Plain {
		return errors.New(e.Msg)
	}
	underlying := errors.New(e.Msg)
	switch e.Cause {
	case "canceled":
		underlying = fmt.Errorf("%s: %w", e.Msg, context.Canceled)
	case "deadline":
		underlying = fmt.Errorf("%s: %w", e.Msg, context.DeadlineExceeded)
	}
	ce := connect.NewError(connect.Code(e.Code), underlying)
	for _, d := range e.Details {
		a, err := anypb.New(d.Message())
		if err != nil {
			panic(err)
		}
		ce.AddDetail(a)
	}
	ApplyKV(ce.Meta(), e.Meta)
	switch e.Wrap {
	case "w":
		return fmt.Errorf("handler layer: %w", ce)
	case "join":
		return errors.Join(ce, errors.New("a second, uncoded error"))
	case "w2":
		return fmt.Errorf("%w (and %w)", ce, errors.New("a second, uncoded error"))
	}
	return ce
}

// ErrView is the plain-data view of an error seen at an API boundary.
type ErrView struct {
	IsConnect bool
	Code      uint32
	Msg       string
	Details   []DetailView
	Meta      http.Header
	WrapsEOF  bool
	Text      string
}

type DetailView struct {
	Type  string
	Value []byte
}

func ViewErr(err error) *ErrView {
	if err == nil {
		return nil
	}
	v := &ErrView{Text: err.Error(), WrapsEOF: errors.Is(err, io.EOF)}
	var ce *connect.Error
	if errors.As(err, &ce) {
		v.IsConnect = true
		v.Code = uint32(ce.Code())
		v.Msg = ce.Message()
		v.Meta = ce.Meta().Clone()
		for _, d := range ce.Details() {
			dv := DetailView{Type: string(d.MessageName())}
			if a, ok := d.(*anypb.Any); ok {
				dv.Value = append([]byte(nil), a.GetValue()...)
			} else {
				dv.Value, _ = proto.Marshal(d)
			}
			v.Details = append(v.Details, dv)
		}
	}
	return v
}

func (v *ErrView) String() string {
	if v == nil {
		return "<nil>"
	}
	return fmt.Sprintf("{connect:%v code:%d msg:%q details:%d eof:%v text:%q}", v.IsConnect, v.Code, v.Msg, len(v.Details), v.WrapsEOF, trunc(v.Text, 200))
}

func trunc(s string, n int) string {
	if len(s) > n {
		return s[:n] + "…"
	}
	return s
}

// HStep is one step of a streaming handler program.
type HStep struct {
	Op  string `json:"op"`            // recv | send | sleep | trailer | header | panic | waitctx
	N   int    `json:"n,omitempty"`   // recv: how many (-1: until end)
	Msg *Msg   `json:"msg,omitempty"` // send
	D   int64  `json:"d,omitempty"`   // sleep ns
	KV  *KV    `json:"kv,omitempty"`  // trailer/header
	PV  string `json:"pv,omitempty"`  // panic value kind
}

// HandlerProg is what the universal handler does for every call.
type HandlerProg struct {
	Header  []KV    `json:"header,omitempty"`
	Trailer []KV    `json:"trailer,omitempty"`
	Steps   []HStep `json:"steps,omitempty"`
	Drain   bool    `json:"drain,omitempty"` // after the steps, receive until the request stream ends
	// PropagateRecvErr makes the handler return the error of a failed Receive
	// (as any realistic handler does) instead of carrying on.
	PropagateRecvErr bool `json:"propagate_recv_err,omitempty"`
	// PropagateSendErr makes the handler stop at a failed Send and return its error.
	PropagateSendErr bool     `json:"propagate_send_err,omitempty"`
	Resp             *Msg     `json:"resp,omitempty"` // unary / client-stream response
	Final            *ErrSpec `json:"final,omitempty"`
}

// HCall is what the handler observed during one invocation.
type HCall struct {
	Received    []Obs
	RecvEnd     string // "" (did not try past the end), "eof", "err"
	RecvErr     *ErrView
	ReqHeader   http.Header
	Procedure   string
	StreamType  connect.StreamType
	IsClient    bool
	HasDeadline bool
	Deadline    time.Time
	Start       time.Time
	SendErrs    []*ErrView
	Sent        int
	CtxErrAtEnd string
	Returned    bool
	PanicValue  any
}

// HLog collects handler observations.
type HLog struct {
	mu    sync.Mutex
	Calls []*HCall
}

// Reset forgets the calls seen so far.
func (l *HLog) Reset() {
	l.mu.Lock()
	l.Calls = nil
	l.mu.Unlock()
}

func (l *HLog) add(c *HCall) {
	l.mu.Lock()
	l.Calls = append(l.Calls, c)
	l.mu.Unlock()
}

func (l *HLog) Snapshot() []*HCall {
	l.mu.Lock()
	defer l.mu.Unlock()
	return append([]*HCall(nil), l.Calls...)
}

// PanicValues maps PV names to values (shared by C19).
var PanicSentinelStruct = struct{ A int }{A: 7}

type hconn interface {
	recv() (*pingv1.PingRequest, error)
	send(*pingv1.PingResponse) error
}

type runner struct {
	ctx  context.Context
	p    *HandlerProg
	call *HCall
	rh   http.Header // response header
	rt   http.Header // response trailer
	// PanicFn is consulted for "panic" steps.
	panicFn func(kind string)
	recvErr error
	sendErr error
}

func (r *runner) recvN(c hconn, n int) {
	for i := 0; n < 0 || i < n; i++ {
		if r.call.RecvEnd != "" {
			return
		}
		m, err := c.recv()
		if err != nil {
			if errors.Is(err, io.EOF) {
				r.call.RecvEnd = "eof"
			} else {
				r.call.RecvEnd = "err"
				r.recvErr = err
			}
			r.call.RecvErr = ViewErr(err)
			return
		}
		r.call.Received = append(r.call.Received, ObsReq(m))
	}
}

func (r *runner) steps(c hconn) {
	for _, s := range r.p.Steps {
		switch s.Op {
		case "recv":
			if c != nil {
				r.recvN(c, s.N)
			}
		case "send":
			if c != nil && s.Msg != nil {
				if err := c.send(s.Msg.Res()); err != nil {
					r.call.SendErrs = append(r.call.SendErrs, ViewErr(err))
					if r.p.PropagateSendErr {
						r.sendErr = err
						return
					}
				} else {
					r.call.Sent++
				}
			}
		case "sleep":
			// (warm-up / companion calls skip pauses as they skip the panic)
			if r.call.ReqHeader.Get("X-Verif-No-Panic") == "" {
				time.Sleep(time.Duration(s.D))
			}
		case "trailer":
			if r.rt != nil && s.KV != nil {
				r.rt.Add(s.KV.K, s.KV.V)
			}
		case "header":
			if r.rh != nil && s.KV != nil {
				r.rh.Add(s.KV.K, s.KV.V)
			}
		case "waitctx":
			// (warm-up calls skip the wait as they skip the panic)
			if r.call.ReqHeader.Get("X-Verif-No-Panic") == "" {
				<-r.ctx.Done()
			}
		case "panic":
			// calls carrying this header are warm-up calls: same handler, no panic
			if r.call.ReqHeader.Get("X-Verif-No-Panic") == "" {
				r.panicFn(s.PV)
			}
		}
	}
	if r.p.Drain && c != nil {
		r.recvN(c, -1)
	}
}

func (r *runner) final() error {
	if r.p.PropagateRecvErr && r.recvErr != nil {
		return r.recvErr
	}
	if r.sendErr != nil {
		return r.sendErr
	}
	if r.p.Final == nil {
		return nil
	}
	if r.p.Final.CtxErr {
		<-r.ctx.Done()
		if r.p.Final.Wrap == "w" {
			return fmt.Errorf("handler gave up: %w", r.ctx.Err())
		}
		return r.ctx.Err()
	}
	return r.p.Final.Build()
}

func newCall(ctx context.Context, spec connect.Spec, h http.Header) *HCall {
	c := &HCall{ReqHeader: h.Clone(), Procedure: spec.Procedure, StreamType: spec.StreamType, IsClient: spec.IsClient, Start: time.Now()}
	c.Deadline, c.HasDeadline = ctx.Deadline()
	return c
}

func (r *runner) end() {
	if err := r.ctx.Err(); err != nil {
		r.call.CtxErrAtEnd = err.Error()
	}
	r.call.Returned = true
}

type clientStreamConn struct {
	s *connect.ClientStream[pingv1.PingRequest]
}

func (c clientStreamConn) recv() (*pingv1.PingRequest, error) {
	if c.s.Receive() {
		// copy: Msg() is overwritten by the next Receive
		return proto.Clone(c.s.Msg()).(*pingv1.PingRequest), nil
	}
	if err := c.s.Err(); err != nil {
		return nil, err
	}
	return nil, io.EOF
}
func (c clientStreamConn) send(*pingv1.PingResponse) error {
	return errors.New("no send on client stream")
}

type serverStreamConn struct {
	s *connect.ServerStream[pingv1.PingResponse]
}

func (c serverStreamConn) recv() (*pingv1.PingRequest, error) { return nil, io.EOF }
func (c serverStreamConn) send(m *pingv1.PingResponse) error  { return c.s.Send(m) }

type bidiConn struct {
	s *connect.BidiStream[pingv1.PingRequest, pingv1.PingResponse]
}

func (c bidiConn) recv() (*pingv1.PingRequest, error) { return c.s.Receive() }
func (c bidiConn) send(m *pingv1.PingResponse) error  { return c.s.Send(m) }

// DefaultPanic panics with a value chosen by kind.
func DefaultPanic(kind string) {
	panic(PanicValue(kind))
}

var (
	PanicErr       = errors.New("panic-error-value")
	PanicConnErr   = connect.NewError(connect.CodeAborted, errors.New("panic-connect-error"))
	PanicPtr       = &struct{ B string }{B: "ptr"}
	PanicWrapAbort = fmt.Errorf("wrapped: %w", http.ErrAbortHandler)
)

// runtimeError returns a genuine runtime.Error value (nil-map write).
func runtimeError() (r any) {
	defer func() { r = recover() }()
	var m map[string]int
	m["x"] = 1
	return nil
}

// PanicValue returns the panic value for a kind name.
func PanicValue(kind string) any {
	switch kind {
	case "nil":
		return nil
	case "error":
		return PanicErr
	case "connect":
		return PanicConnErr
	case "string":
		return "panic-string"
	case "int":
		return 42
	case "struct":
		return PanicSentinelStruct
	case "ptr":
		return PanicPtr
	case "abort":
		return http.ErrAbortHandler
	case "wrapabort":
		return PanicWrapAbort
	case "runtime":
		return runtimeError()
	}
	return "panic-" + kind
}

// NewHandler builds the universal handler of the given kind.
func NewHandler(kind string, p *HandlerProg, log *HLog, opts ...connect.HandlerOption) *connect.Handler {
	return NewHandlerAt(Procedure(kind), kind, p, log, opts...)
}

func NewHandlerAt(procedure, kind string, p *HandlerProg, log *HLog, opts ...connect.HandlerOption) *connect.Handler {
	mk := func(ctx context.Context, spec connect.Spec, h http.Header) *runner {
		call := newCall(ctx, spec, h)
		log.add(call)
		return &runner{ctx: ctx, p: p, call: call, panicFn: func(kind string) {
			call.PanicValue = PanicValue(kind)
			DefaultPanic(kind)
		}}
	}
	resp := func() *pingv1.PingResponse {
		if p.Resp != nil {
			return p.Resp.Res()
		}
		return &pingv1.PingResponse{}
	}
	switch kind {
	case Unary:
		return connect.NewUnaryHandler(procedure, func(ctx context.Context, req *connect.Request[pingv1.PingRequest]) (*connect.Response[pingv1.PingResponse], error) {
			r := mk(ctx, req.Spec(), req.Header())
			defer r.end()
			r.call.Received = append(r.call.Received, ObsReq(req.Msg))
			res := connect.NewResponse(resp())
			r.rh, r.rt = res.Header(), res.Trailer()
			ApplyKV(r.rh, p.Header)
			ApplyKV(r.rt, p.Trailer)
			r.steps(nil)
			if err := r.final(); err != nil {
				return nil, err
			}
			r.call.Sent = 1
			return res, nil
		}, opts...)
	case Client:
		return connect.NewClientStreamHandler(procedure, func(ctx context.Context, s *connect.ClientStream[pingv1.PingRequest]) (*connect.Response[pingv1.PingResponse], error) {
			r := mk(ctx, connect.Spec{Procedure: procedure, StreamType: connect.StreamTypeClient}, s.RequestHeader())
			defer r.end()
			res := connect.NewResponse(resp())
			r.rh, r.rt = res.Header(), res.Trailer()
			ApplyKV(r.rh, p.Header)
			ApplyKV(r.rt, p.Trailer)
			r.steps(clientStreamConn{s})
			if err := r.final(); err != nil {
				return nil, err
			}
			r.call.Sent = 1
			return res, nil
		}, opts...)
	case Server:
		return connect.NewServerStreamHandler(procedure, func(ctx context.Context, req *connect.Request[pingv1.PingRequest], s *connect.ServerStream[pingv1.PingResponse]) error {
			r := mk(ctx, req.Spec(), req.Header())
			defer r.end()
			r.call.Received = append(r.call.Received, ObsReq(req.Msg))
			r.rh, r.rt = s.ResponseHeader(), s.ResponseTrailer()
			ApplyKV(r.rh, p.Header)
			ApplyKV(r.rt, p.Trailer)
			r.steps(serverStreamConn{s})
			return r.final()
		}, opts...)
	case Bidi:
		return connect.NewBidiStreamHandler(procedure, func(ctx context.Context, s *connect.BidiStream[pingv1.PingRequest, pingv1.PingResponse]) error {
			r := mk(ctx, connect.Spec{Procedure: procedure, StreamType: connect.StreamTypeBidi}, s.RequestHeader())
			defer r.end()
			r.rh, r.rt = s.ResponseHeader(), s.ResponseTrailer()
			ApplyKV(r.rh, p.Header)
			ApplyKV(r.rt, p.Trailer)
			r.steps(bidiConn{s})
			return r.final()
		}, opts...)
	}
	panic("bad kind " + kind)
}

// COp is one client operation on a bidi stream.
type COp struct {
	Op  string `json:"op"` // send | closereq | recv | closeresp | cancel | sleep | recvall
	Msg *Msg   `json:"msg,omitempty"`
	D   int64  `json:"d,omitempty"`
}

// ClientProg is what the universal client does.
type ClientProg struct {
	Header []KV  `json:"header,omitempty"`
	Msgs   []Msg `json:"msgs,omitempty"` // requests for unary (1), server (1), client (k)
	Ops    []COp `json:"ops,omitempty"`  // bidi only
}

type OpResult struct {
	Idx int // index of the program op that produced this result
	Op  string
	Err *ErrView
	Msg *Obs
}

// CResult is what the client observed.
type CResult struct {
	Received []Obs
	Err      *ErrView // terminal error of the call (nil: success / clean end)
	CleanEnd bool     // the call ended with success resp. io.EOF
	Header   http.Header
	Trailer  http.Header
	Ops      []OpResult
	SendErrs []*ErrView
	CloseErr *ErrView
}

const BaseURL = "http://mem.test"

// RunClient executes a client program.
func RunClient(ctx context.Context, hc connect.HTTPClient, cfg Config, p *ClientProg, cancel context.CancelFunc, extra ...connect.ClientOption) *CResult {
	opts := append(cfg.ClientOptions(), extra...)
	cl := connect.NewClient[pingv1.PingRequest, pingv1.PingResponse](hc, BaseURL+Procedure(cfg.Kind), opts...)
	return RunClientWith(ctx, cl, cfg.Kind, p, cancel)
}

func first(msgs []Msg) Msg {
	if len(msgs) > 0 {
		return msgs[0]
	}
	return Msg{}
}

func RunClientWith(ctx context.Context, cl *connect.Client[pingv1.PingRequest, pingv1.PingResponse], kind string, p *ClientProg, cancel context.CancelFunc) *CResult {
	return RunClientTimed(ctx, cl, kind, p, cancel, time.Time{}, nil)
}

// RunClientTimed is RunClientWith that also records, for bidi programs, the
// (virtual) time at which each operation returned.
func RunClientTimed(ctx context.Context, cl *connect.Client[pingv1.PingRequest, pingv1.PingResponse], kind string, p *ClientProg, cancel context.CancelFunc, start time.Time, times *[]time.Duration) *CResult {
	res := &CResult{}
	mark := func() {
		if times != nil {
			*times = append(*times, time.Since(start))
		}
	}
	switch kind {
	case Unary:
		req := connect.NewRequest(first(p.Msgs).Req())
		ApplyKV(req.Header(), p.Header)
		r, err := cl.CallUnary(ctx, req)
		if err != nil {
			res.Err = ViewErr(err)
			return res
		}
		res.Received = append(res.Received, ObsRes(r.Msg))
		res.Header, res.Trailer = r.Header().Clone(), r.Trailer().Clone()
		res.CleanEnd = true
	case Client:
		s := cl.CallClientStream(ctx)
		ApplyKV(s.RequestHeader(), p.Header)
		for _, m := range p.Msgs {
			if err := s.Send(m.Req()); err != nil {
				res.SendErrs = append(res.SendErrs, ViewErr(err))
				break
			}
		}
		r, err := s.CloseAndReceive()
		if err != nil {
			res.Err = ViewErr(err)
			return res
		}
		res.Received = append(res.Received, ObsRes(r.Msg))
		res.Header, res.Trailer = r.Header().Clone(), r.Trailer().Clone()
		res.CleanEnd = true
	case Server:
		req := connect.NewRequest(first(p.Msgs).Req())
		ApplyKV(req.Header(), p.Header)
		s, err := cl.CallServerStream(ctx, req)
		if err != nil {
			res.Err = ViewErr(err)
			return res
		}
		for s.Receive() {
			res.Received = append(res.Received, ObsRes(proto.Clone(s.Msg()).(*pingv1.PingResponse)))
		}
		if err := s.Err(); err != nil {
			res.Err = ViewErr(err)
		} else {
			res.CleanEnd = true
		}
		res.Header, res.Trailer = s.ResponseHeader().Clone(), s.ResponseTrailer().Clone()
		if err := s.Close(); err != nil {
			res.CloseErr = ViewErr(err)
		}
	case Bidi:
		s := cl.CallBidiStream(ctx)
		ApplyKV(s.RequestHeader(), p.Header)
		opIdx := 0
		recvOne := func() bool {
			m, err := s.Receive()
			if err != nil {
				res.Ops = append(res.Ops, OpResult{Idx: opIdx, Op: "recv", Err: ViewErr(err)})
				if errors.Is(err, io.EOF) {
					res.CleanEnd = true
				} else if res.Err == nil {
					res.Err = ViewErr(err)
				}
				return false
			}
			o := ObsRes(m)
			res.Received = append(res.Received, o)
			res.Ops = append(res.Ops, OpResult{Idx: opIdx, Op: "recv", Msg: &o})
			return true
		}
		responded := false
		for i, op := range p.Ops {
			opIdx = i
			switch op.Op {
			case "send":
				m := Msg{}
				if op.Msg != nil {
					m = *op.Msg
				}
				err := s.Send(m.Req())
				res.Ops = append(res.Ops, OpResult{Idx: opIdx, Op: "send", Err: ViewErr(err)})
				if err != nil {
					res.SendErrs = append(res.SendErrs, ViewErr(err))
				}
			case "closereq":
				err := s.CloseRequest()
				res.Ops = append(res.Ops, OpResult{Idx: opIdx, Op: "closereq", Err: ViewErr(err)})
			case "recv":
				recvOne()
			case "recvall":
				for recvOne() {
				}
			case "closeresp":
				err := s.CloseResponse()
				res.Ops = append(res.Ops, OpResult{Idx: opIdx, Op: "closeresp", Err: ViewErr(err)})
				res.CloseErr = ViewErr(err)
				responded = true
			case "cancel":
				if cancel != nil {
					cancel()
				}
				res.Ops = append(res.Ops, OpResult{Idx: opIdx, Op: "cancel"})
			case "sleep":
				time.Sleep(time.Duration(op.D))
				res.Ops = append(res.Ops, OpResult{Idx: opIdx, Op: "sleep"})
			case "cancelafter":
				if cancel != nil {
					time.AfterFunc(time.Duration(op.D), cancel)
				}
				res.Ops = append(res.Ops, OpResult{Idx: opIdx, Op: "cancelafter"})
			}
			mark()
		}
		_ = responded
		res.Header, res.Trailer = s.ResponseHeader().Clone(), s.ResponseTrailer().Clone()
	}
	return res
}

// SubsequenceOf reports whether want's values appear in got in order, for every key.
func SubsequenceOf(want, got http.Header) error {
	keys := make([]string, 0, len(want))
	for k := range want {
		keys = append(keys, k)
	}
	sort.Strings(keys)
	for _, k := range keys {
		g := got[http.CanonicalHeaderKey(k)]
		i := 0
		for _, w := range want[k] {
			found := false
			for i < len(g) {
				if g[i] == w {
					found = true
					i++
					break
				}
				i++
			}
			if !found {
				return fmt.Errorf("key %q: want values %q (in order) within %q", k, want[k], g)
			}
		}
	}
	return nil
}
