// Package pbt is the thin layer between rapid and the verification driver:
// it runs a generator+oracle pair, records coverage statistics, writes the
// shrunk failing case as a JSON replay file, replays such files without
// rapid, and recognises known findings listed in KNOWN_FINDINGS.txt.
package pbt

import (
	"bufio"
	"encoding/json"
	"errors"
	"fmt"
	"hash/fnv"
	"os"
	"path/filepath"
	"runtime/debug"
	"sort"
	"strings"
	"sync"
	"testing"
	"testing/synctest"
	"time"

	"pgregory.net/rapid"
)

// Info classifies one executed case.
type Info struct {
	NonTrivial bool
	Labels     []string
}

func (i *Info) Label(l string) { i.Labels = append(i.Labels, l) }

// KnownError marks a deviation that matches a recogniser; it is a violation
// unless the recogniser is listed as open in KNOWN_FINDINGS.txt.
type KnownError struct {
	Recogniser string
	Err        error
}

func (k *KnownError) Error() string { return k.Recogniser + ": " + k.Err.Error() }
func (k *KnownError) Unwrap() error { return k.Err }

// InconclusiveError marks a run that could not decide (watchdog expiry,
// unavailable resource). It is never reported as a violation: the test fails
// without a VIOLATION line, which the driver maps to exit 2.
type InconclusiveError struct{ Msg string }

func (e *InconclusiveError) Error() string { return "INCONCLUSIVE: " + e.Msg }

// Inconclusive builds an InconclusiveError.
func Inconclusive(format string, args ...any) error {
	return &InconclusiveError{Msg: fmt.Sprintf(format, args...)}
}

// Known wraps err as matching recogniser.
func Known(recogniser string, format string, args ...any) error {
	return &KnownError{Recogniser: recogniser, Err: fmt.Errorf(format, args...)}
}

// Spec is one generated check.
type Spec[C any] struct {
	Prop  string // property id, e.g. "C01"
	Name  string // sub-check name, e.g. "mem"
	Gen   func(*rapid.T) C
	Check func(tt *testing.T, c C) (Info, error)
	// Rule describes generation and the non-triviality rule (evidence).
	Rule string
}

type stats struct {
	mu          sync.Mutex
	Prop        string            `json:"prop"`
	Name        string            `json:"name"`
	Rule        string            `json:"rule"`
	Evaluations int               `json:"evaluations"`
	NonTrivial  map[uint64]bool   `json:"-"`
	NTHashes    []uint64          `json:"nontrivial_hashes"`
	BulkNT      int               `json:"bulk_nontrivial"` // distinct by construction (enumerations)
	Labels      map[string]int    `json:"labels"`
	Samples     []json.RawMessage `json:"samples"`
	sampleSeen  map[string]int
	Excluded    map[string]int `json:"excluded_known"`
	Corpus      int            `json:"corpus_cases"`
	Exhaustive  bool           `json:"exhaustive"`
	Notes       []string       `json:"notes"`
	Violations  int            `json:"violations"`
	Extra       map[string]int `json:"extra"`
}

var (
	allStats   = map[string]*stats{}
	allStatsMu sync.Mutex
)

func getStats(prop, name, rule string) *stats {
	allStatsMu.Lock()
	defer allStatsMu.Unlock()
	key := prop + "/" + name
	st, ok := allStats[key]
	if !ok {
		st = &stats{Prop: prop, Name: name, Rule: rule, NonTrivial: map[uint64]bool{}, Labels: map[string]int{}, sampleSeen: map[string]int{}, Excluded: map[string]int{}, Extra: map[string]int{}}
		allStats[key] = st
	}
	return st
}

func hashBytes(b []byte) uint64 {
	h := fnv.New64a()
	h.Write(b)
	return h.Sum64()
}

func (st *stats) record(caseJSON []byte, info Info) {
	st.mu.Lock()
	defer st.mu.Unlock()
	st.Evaluations++
	if info.NonTrivial {
		st.NonTrivial[hashBytes(caseJSON)] = true
	}
	for _, l := range info.Labels {
		st.Labels[l]++
	}
	// keep the first case of each label class (bounded), plus the first nontrivial ones
	keep := false
	key := "trivial"
	if info.NonTrivial {
		key = "nontrivial"
	}
	if st.sampleSeen[key] < 2 {
		st.sampleSeen[key]++
		keep = true
	}
	for _, l := range info.Labels {
		if st.sampleSeen["l:"+l] < 1 && len(st.Samples) < 12 {
			st.sampleSeen["l:"+l]++
			keep = true
		}
	}
	if keep && len(st.Samples) < 12 && len(caseJSON) < 6000 {
		st.Samples = append(st.Samples, json.RawMessage(append([]byte(nil), caseJSON...)))
	}
}

// Note adds a free-text note to the evidence of a sub-check.
func Note(prop, name, note string) {
	st := getStats(prop, name, "")
	st.mu.Lock()
	st.Notes = append(st.Notes, note)
	st.mu.Unlock()
}

// Count adds to a named counter in the evidence.
func Count(prop, name, counter string, n int) {
	st := getStats(prop, name, "")
	st.mu.Lock()
	st.Extra[counter] += n
	st.mu.Unlock()
}

// RecordEnum records one enumerated (non-rapid) evaluation.
func RecordEnum(prop, name, rule string, sample any, info Info) {
	st := getStats(prop, name, rule)
	b, _ := json.Marshal(sample)
	st.record(b, info)
}

// RecordBulk records n enumerated evaluations of which nt were distinct and
// non-trivial (for exhaustive loops where hashing every case is wasteful; the
// enumeration itself guarantees distinctness).
func RecordBulk(prop, name, rule string, n, nt int, exhaustive bool, samples ...any) {
	st := getStats(prop, name, rule)
	st.mu.Lock()
	defer st.mu.Unlock()
	st.Evaluations += n
	st.BulkNT += nt
	if exhaustive {
		st.Exhaustive = true
	}
	for _, s := range samples {
		if len(st.Samples) < 12 {
			b, _ := json.Marshal(s)
			st.Samples = append(st.Samples, b)
		}
	}
}

// Flush writes all statistics to $VERIF_STATS_DIR.
func Flush() {
	dir := os.Getenv("VERIF_STATS_DIR")
	if dir == "" {
		return
	}
	allStatsMu.Lock()
	defer allStatsMu.Unlock()
	shard := os.Getenv("VERIF_SHARD")
	for _, st := range allStats {
		st.mu.Lock()
		st.NTHashes = st.NTHashes[:0]
		for h := range st.NonTrivial {
			st.NTHashes = append(st.NTHashes, h)
		}
		sort.Slice(st.NTHashes, func(i, j int) bool { return st.NTHashes[i] < st.NTHashes[j] })
		b, err := json.Marshal(st)
		st.mu.Unlock()
		if err != nil {
			continue
		}
		name := fmt.Sprintf("%s-%s-%s-%d.json", st.Prop, strings.ReplaceAll(st.Name, "/", "_"), shard, os.Getpid())
		tmp := filepath.Join(dir, "."+name+".tmp")
		if os.WriteFile(tmp, b, 0o644) == nil {
			_ = os.Rename(tmp, filepath.Join(dir, name))
		}
	}
}

// ---- known findings ----

var (
	knownOnce sync.Once
	knownOpen map[string]string
)

func loadKnown() {
	knownOpen = map[string]string{}
	path := os.Getenv("VERIF_KNOWN")
	if path == "" {
		path = "/verif/KNOWN_FINDINGS.txt"
	}
	f, err := os.Open(path)
	if err != nil {
		return
	}
	defer f.Close()
	sc := bufio.NewScanner(f)
	for sc.Scan() {
		line := strings.TrimSpace(sc.Text())
		// open: property=C14 recogniser=<name> :: <what fails>
		if !strings.HasPrefix(line, "open:") {
			continue
		}
		var rec, desc string
		if i := strings.Index(line, "::"); i >= 0 {
			desc = strings.TrimSpace(line[i+2:])
			line = line[:i]
		}
		for _, f := range strings.Fields(line) {
			if strings.HasPrefix(f, "recogniser=") {
				rec = strings.TrimPrefix(f, "recogniser=")
			}
		}
		if rec != "" {
			knownOpen[rec] = desc
		}
	}
}

// IsOpen reports whether a recogniser is listed as an open known finding.
func IsOpen(recogniser string) bool {
	knownOnce.Do(loadKnown)
	_, ok := knownOpen[recogniser]
	return ok
}

var (
	knownPrinted   = map[string]bool{}
	knownPrintedMu sync.Mutex
)

func noteKnown(prop, recogniser string) {
	knownPrintedMu.Lock()
	defer knownPrintedMu.Unlock()
	if knownPrinted[recogniser] {
		return
	}
	knownPrinted[recogniser] = true
	fmt.Printf("KNOWN-FINDING: property=%s %s: %s\n", prop, recogniser, knownOpen[recogniser])
}

// ---- running ----

func replayDir(prop string) string {
	dir := os.Getenv("VERIF_REPLAY_DIR")
	if dir == "" {
		dir = "/verif/replays"
	}
	dir = filepath.Join(dir, prop)
	_ = os.MkdirAll(dir, 0o755)
	return dir
}

type replayFile struct {
	Prop      string          `json:"prop"`
	Name      string          `json:"name"`
	Violation string          `json:"violation"`
	Case      json.RawMessage `json:"case"`
}

func writeReplay(prop, name string, caseJSON []byte, verr error) string {
	rf := replayFile{Prop: prop, Name: name, Violation: verr.Error(), Case: caseJSON}
	b, _ := json.MarshalIndent(rf, "", " ")
	path := filepath.Join(replayDir(prop), fmt.Sprintf("%s-%s-%d.json", strings.ReplaceAll(name, "/", "_"), os.Getenv("VERIF_SHARD"), os.Getpid()))
	_ = os.WriteFile(path, b, 0o644)
	return path
}

// safeCheck runs check and converts panics into violations.
func safeCheck[C any](tt *testing.T, s Spec[C], c C) (info Info, err error) {
	defer func() {
		if r := recover(); r != nil {
			err = fmt.Errorf("panic during check: %v\n%s", r, debug.Stack())
		}
	}()
	return s.Check(tt, c)
}

// evaluate runs one case and applies the known-finding policy. It returns a
// non-nil error only for a reportable violation.
func evaluate[C any](tt *testing.T, s Spec[C], st *stats, c C, count bool) (error, []byte) {
	caseJSON, jerr := json.Marshal(c)
	if jerr != nil {
		panic("case not serialisable: " + jerr.Error())
	}
	// When the driver re-runs a shard that died (a panic on a goroutine the
	// check does not own, a runtime fatal error), the case being evaluated is
	// kept in $VERIF_PENDING so that it can be reported as the replay file.
	if pend := os.Getenv("VERIF_PENDING"); pend != "" {
		rf := replayFile{Prop: s.Prop, Name: s.Name, Violation: "the process died while this case was being evaluated", Case: caseJSON}
		b, _ := json.MarshalIndent(rf, "", " ")
		_ = os.WriteFile(pend, b, 0o644)
		defer os.Remove(pend)
	}
	info, err := safeCheck(tt, s, c)
	var ie *InconclusiveError
	if err != nil && errors.As(err, &ie) {
		fmt.Printf("HARNESS-INCONCLUSIVE %s/%s: %s\n", s.Prop, s.Name, ie.Msg)
		tt.Fatalf("%v", err)
	}
	var ke *KnownError
	if err != nil && errors.As(err, &ke) && IsOpen(ke.Recogniser) {
		st.mu.Lock()
		st.Excluded[ke.Recogniser]++
		st.mu.Unlock()
		noteKnown(s.Prop, ke.Recogniser)
		err = nil
	}
	if err == nil && count {
		st.record(caseJSON, info)
	}
	return err, caseJSON
}

// Run executes the corpus (regression cases) and then the rapid search.
func Run[C any](t *testing.T, s Spec[C]) {
	st := getStats(s.Prop, s.Name, s.Rule)
	defer Flush()
	// 1. regression corpus
	corpusDir := os.Getenv("VERIF_CORPUS_DIR")
	if corpusDir == "" {
		corpusDir = "/verif/corpus"
	}
	files, _ := filepath.Glob(filepath.Join(corpusDir, s.Prop, strings.ReplaceAll(s.Name, "/", "_")+"-*.json"))
	if os.Getenv("VERIF_SKIP_CORPUS") != "" {
		files = nil
	}
	sort.Strings(files)
	for _, f := range files {
		c, err := load[C](f)
		if err != nil {
			t.Fatalf("HARNESS: bad corpus file %s: %v", f, err)
		}
		st.mu.Lock()
		st.Corpus++
		st.mu.Unlock()
		if verr, _ := evaluate(t, s, st, c, true); verr != nil {
			st.mu.Lock()
			st.Violations++
			st.mu.Unlock()
			fmt.Printf("VIOLATION property=%s replay=%s\n", s.Prop, f)
			t.Fatalf("corpus case %s violates %s/%s: %v", f, s.Prop, s.Name, verr)
		}
	}
	if os.Getenv("VERIF_CORPUS_ONLY") != "" {
		return
	}
	// 2. generated search
	var lastPath string
	var lastErr error
	failed := false
	rapid.Check(recorder{T: t, failed: &failed}, func(rt *rapid.T) {
		c := s.Gen(rt)
		verr, caseJSON := evaluate(t, s, st, c, !failed)
		if verr != nil {
			failed = true
			lastErr = verr
			lastPath = writeReplay(s.Prop, s.Name, caseJSON, verr)
			rt.Fatalf("%s/%s violated: %v", s.Prop, s.Name, verr)
		}
	})
	if failed {
		st.mu.Lock()
		st.Violations++
		st.mu.Unlock()
		Flush()
		fmt.Printf("VIOLATION property=%s replay=%s\n", s.Prop, lastPath)
		t.Fatalf("%s/%s: %v", s.Prop, s.Name, lastErr)
	}
}

// recorder lets rapid.Check report through testing.T but keeps running our
// own epilogue (rapid calls Fatalf on the TB it was given → Goexit). We run
// rapid.Check on a wrapper whose FailNow panics are contained.
type recorder struct {
	*testing.T
	failed *bool
}

func (r recorder) Fatalf(format string, args ...any) {
	r.T.Logf(format, args...)
	*r.failed = true
}
func (r recorder) Fatal(args ...any) {
	r.T.Log(args...)
	*r.failed = true
}
func (r recorder) Errorf(format string, args ...any) {
	r.T.Logf(format, args...)
	*r.failed = true
}
func (r recorder) Error(args ...any) {
	r.T.Log(args...)
	*r.failed = true
}
func (r recorder) FailNow()     { *r.failed = true }
func (r recorder) Fail()        { *r.failed = true }
func (r recorder) Failed() bool { return *r.failed }
func (r recorder) Logf(format string, args ...any) {
	msg := fmt.Sprintf(format, args...)
	var n int
	var rest string
	if _, err := fmt.Sscanf(msg, "[rapid] OK, passed %d tests %s", &n, &rest); err == nil || n > 0 {
		fmt.Printf("RAPID-PASSED %s %d\n", r.T.Name(), n)
	}
	r.T.Log(msg)
}

func load[C any](path string) (C, error) {
	var c C
	b, err := os.ReadFile(path)
	if err != nil {
		return c, err
	}
	var rf replayFile
	if err := json.Unmarshal(b, &rf); err != nil {
		return c, err
	}
	if len(rf.Case) == 0 {
		return c, fmt.Errorf("no case in %s", path)
	}
	err = json.Unmarshal(rf.Case, &c)
	return c, err
}

// Replay re-runs a saved case, bypassing rapid. Returns (matched, violation).
func Replay[C any](t *testing.T, s Spec[C], path string) (bool, error) {
	b, err := os.ReadFile(path)
	if err != nil {
		t.Fatalf("HARNESS: %v", err)
	}
	var rf replayFile
	if err := json.Unmarshal(b, &rf); err != nil {
		t.Fatalf("HARNESS: %v", err)
	}
	if rf.Prop != s.Prop || (rf.Name != s.Name && rf.Name != s.Name+"-fuzz" && rf.Name != s.Name+"-genfuzz") {
		return false, nil
	}
	c, err := load[C](path)
	if err != nil {
		t.Fatalf("HARNESS: %v", err)
	}
	_, verr := safeCheck(t, s, c)
	return true, verr
}

// ReplayMain is the body of TestReplay in each check package.
func ReplayMain(t *testing.T, try ...func(t *testing.T, path string) (bool, error)) {
	path := os.Getenv("VERIF_REPLAY")
	if path == "" {
		t.Skip("no VERIF_REPLAY")
	}
	for _, f := range try {
		ok, verr := f(t, path)
		if !ok {
			continue
		}
		if verr != nil {
			var ke *KnownError
			if errors.As(verr, &ke) && IsOpen(ke.Recogniser) {
				noteKnown("", ke.Recogniser)
			}
			fmt.Printf("REPLAY-VIOLATION %v\n", verr)
			t.Fatalf("replay of %s still violates: %v", path, verr)
		}
		fmt.Printf("REPLAY-OK %s\n", path)
		return
	}
	t.Fatalf("HARNESS: no sub-check matches replay file %s", path)
}

// Replayer adapts a Spec for ReplayMain.
func Replayer[C any](s Spec[C]) func(t *testing.T, path string) (bool, error) {
	return func(t *testing.T, path string) (bool, error) { return Replay(t, s, path) }
}

// Bubble runs f inside a testing/synctest bubble and converts bubble panics
// (deadlock, leftover goroutines) and ordinary panics into errors.
func Bubble(parent *testing.T, f func() error) (err error) {
	done := make(chan struct{})
	go func() {
		defer close(done)
		defer func() {
			if os.Getenv("VERIF_BUBBLE_NORECOVER") != "" {
				return // debugging aid: let a deadlock panic kill the process so that every goroutine is dumped
			}
			if r := recover(); r != nil {
				err = fmt.Errorf("bubble: %v", r)
			}
		}()
		synctest.Test(parent, func(st *testing.T) {
			defer func() {
				if r := recover(); r != nil {
					err = fmt.Errorf("panic in bubble: %v\n%s", r, debug.Stack())
				}
			}()
			err = f()
		})
	}()
	<-done
	return err
}

// Tier returns "quick" or "thorough".
func Tier() string {
	if os.Getenv("VERIF_TIER") == "thorough" {
		return "thorough"
	}
	return "quick"
}

func Thorough() bool { return Tier() == "thorough" }

// SaveReplay writes a replay file for a case found outside rapid (enumerations).
func SaveReplay[C any](s Spec[C], c C, verr error) string {
	b, _ := json.Marshal(c)
	return writeReplay(s.Prop, s.Name, b, verr)
}

// ---- native coverage-guided fuzzing (go test -fuzz) ----

var (
	fuzzFlushMu   sync.Mutex
	fuzzLastFlush time.Time
)

// FuzzEval evaluates one case decoded from a native fuzz input with the
// spec's oracle. Statistics go to the sub-check "<name>-fuzz" and are flushed
// about once a second, because fuzz workers are not shut down through the
// testing package. On a violation the case is written as an ordinary JSON
// replay file; the VIOLATION line is only visible when the crasher is re-run
// in-process (the driver does that), since workers' stdout is discarded.
func FuzzEval[C any](t *testing.T, s Spec[C], c C) {
	fuzzEval(t, s, c, "-fuzz", "go test -fuzz (coverage-guided, all cores) over byte-level inputs decoded into the same case type and judged by the same oracle as ["+s.Name+"]; seeds are examples of the structured generator; non-trivial = same rule")
}

// FuzzGen registers a native fuzz target whose input bytes are the entropy of
// the spec's own rapid generator (rapid.MakeFuzz), so coverage feedback
// steers the structured generator.
func FuzzGen[C any](f *testing.F, s Spec[C]) {
	rule := "go test -fuzz (coverage-guided, all cores) feeding the structured generator of [" + s.Name + "] through rapid.MakeFuzz; same oracle; non-trivial = same rule"
	f.Fuzz(func(t *testing.T, data []byte) {
		rapid.MakeFuzz(func(rt *rapid.T) {
			c := s.Gen(rt)
			fuzzEval(t, s, c, "-genfuzz", rule)
		})(t, data)
	})
}

func fuzzEval[C any](t *testing.T, s Spec[C], c C, suffix, rule string) {
	fs := s
	fs.Name = s.Name + suffix
	st := getStats(fs.Prop, fs.Name, rule)
	verr, caseJSON := evaluate(t, fs, st, c, true)
	fuzzFlushMu.Lock()
	if time.Since(fuzzLastFlush) > time.Second || verr != nil {
		fuzzLastFlush = time.Now()
		fuzzFlushMu.Unlock()
		Flush()
	} else {
		fuzzFlushMu.Unlock()
	}
	if verr != nil {
		path := writeReplay(fs.Prop, fs.Name, caseJSON, verr)
		fmt.Printf("VIOLATION property=%s replay=%s\n", fs.Prop, path)
		t.Fatalf("%s/%s violated: %v", fs.Prop, fs.Name, verr)
	}
}
