// Package sched runs client/handler programs inside a synctest bubble with
// virtual delays injected at the duplex call's yield points, and reports
// what terminated, what leaked and what each operation returned.
package sched

import (
	"context"
	"fmt"
	"net/http"
	"regexp"
	"runtime"
	"strings"
	"sync"
	"testing"
	"testing/synctest"
	"time"

	connect "github.com/bufbuild/connect-go"
	pingv1 "github.com/bufbuild/connect-go/internal/gen/connect/ping/v1"
	"github.com/bufbuild/connect-go/verif/memnet"
	"github.com/bufbuild/connect-go/verif/pbt"
	"github.com/bufbuild/connect-go/verif/prog"
)

// Points are the named yield points compiled into connect-go with -tags verif.
var Points = []string{"write", "closewrite", "read", "closeread", "seterror", "beforedo", "afterdo", "responseready"}

// Delay is a virtual delay injected every time a yield point is reached.
type Delay struct {
	Point string `json:"point"`
	NS    int64  `json:"ns"`
}

// Scenario is one schedule-controlled execution.
type Scenario struct {
	Cfg        prog.Config      `json:"cfg"`
	Transport  string           `json:"transport"` // mem | h2c | h1
	Handler    prog.HandlerProg `json:"handler"`
	Client     prog.ClientProg  `json:"client"`
	Delays     []Delay          `json:"delays,omitempty"`
	DeadlineNS int64            `json:"deadline_ns,omitempty"` // client context deadline (0: none)
	CancelNS   int64            `json:"cancel_ns,omitempty"`   // cancel the client context after this much virtual time (-1: before the call)
	// HandlerExitDelayNS delays the return of ServeHTTP after the connect handler
	// finished (middleware work after the handler): the transport-level end of
	// the response arrives later than the protocol-level terminator.
	HandlerExitDelayNS int64 `json:"handler_exit_delay_ns,omitempty"`
	// ReqBodyDelayNS delays every read the transport performs on the request
	// body (a transport whose body-writer goroutine lags behind).
	ReqBodyDelayNS int64 `json:"req_body_delay_ns,omitempty"`
	ReqWindow      int   `json:"req_window,omitempty"` // mem: bytes buffered client→server (0: unbounded)
	RespWindow     int   `json:"resp_window,omitempty"`
	// HandlerKind, if set and different from Cfg.Kind, mounts a handler of that
	// RPC kind at the procedure the client calls (a server that answers a
	// unary call with a stream of messages, say).
	HandlerKind string `json:"handler_kind,omitempty"`
	// LingerRequest (mem): the transport keeps swallowing request bytes after
	// the response is complete instead of closing the request body.
	LingerRequest bool `json:"linger_request,omitempty"`
}

// Trace is what happened.
type Trace struct {
	Res            *prog.CResult
	OpTimes        []time.Duration // virtual time at which each op of a bidi program returned
	Calls          []*prog.HCall
	BodyCloses     int
	Responses      int      // responses (with a body) handed to the library by the transport
	Leftover       []string // stacks of goroutines with connect-go frames that remain after the settle period
	Elapsed        time.Duration
	CtxDoneAt      time.Duration // virtual time at which the client context ended (-1: never)
	HandlerCtxDone bool
}

type slowBody struct {
	rc interface {
		Read([]byte) (int, error)
		Close() error
	}
	delay time.Duration
}

func (b *slowBody) Read(p []byte) (int, error) {
	time.Sleep(b.delay)
	return b.rc.Read(p)
}
func (b *slowBody) Close() error { return b.rc.Close() }

type countingClient struct {
	reqBodyDelay time.Duration
	inner        connect.HTTPClient
	mu           sync.Mutex
	n            int
	resps        int
}

type countingBody struct {
	rc interface {
		Read([]byte) (int, error)
		Close() error
	}
	c *countingClient
}

func (b *countingBody) Read(p []byte) (int, error) { return b.rc.Read(p) }
func (b *countingBody) Close() error {
	b.c.mu.Lock()
	b.c.n++
	b.c.mu.Unlock()
	return b.rc.Close()
}

func (c *countingClient) Do(r *http.Request) (*http.Response, error) {
	if c.reqBodyDelay > 0 && r.Body != nil {
		r.Body = &slowBody{rc: r.Body, delay: c.reqBodyDelay}
	}
	resp, err := c.inner.Do(r)
	if resp != nil && resp.Body != nil {
		resp.Body = &countingBody{rc: resp.Body, c: c}
		c.mu.Lock()
		c.resps++
		c.mu.Unlock()
	}
	return resp, err
}

var bubbleRe = regexp.MustCompile(`synctest bubble (\d+)`)

// leftovers returns the stacks of goroutines in the current bubble (other
// than the caller) that have a frame inside the connect-go library itself.
// Leftovers is exported for checks that run their own bubbles.
func Leftovers() []string { return leftovers() }

func leftovers() []string {
	buf := make([]byte, 1<<20)
	n := runtime.Stack(buf, true)
	blocks := strings.Split(string(buf[:n]), "\n\n")
	if len(blocks) == 0 {
		return nil
	}
	me := bubbleRe.FindString(blocks[0])
	var out []string
	for _, b := range blocks[1:] {
		head := b
		if i := strings.IndexByte(b, '\n'); i >= 0 {
			head = b[:i]
		}
		if me == "" || bubbleRe.FindString(head) != me {
			continue
		}
		lib := false
		for _, line := range strings.Split(b, "\n") {
			if strings.HasPrefix(line, "github.com/bufbuild/connect-go.") || strings.HasPrefix(line, "github.com/bufbuild/connect-go.(") {
				lib = true
			}
		}
		if lib {
			out = append(out, b)
		}
	}
	return out
}

var hookMu sync.Mutex

// Run executes the scenario inside a bubble. A returned error is a bubble
// failure (deadlock / blocked goroutines / panic).
func Run(tt *testing.T, s Scenario) (*Trace, error) {
	hookMu.Lock()
	defer hookMu.Unlock()
	tr := &Trace{CtxDoneAt: -1}
	log := &prog.HLog{}
	hp := s.Handler
	var h http.Handler = prog.NewHandler(s.Cfg.Kind, &hp, log, s.Cfg.HandlerOptions()...)
	if s.HandlerKind != "" && s.HandlerKind != s.Cfg.Kind {
		// a handler of another RPC kind answers at the procedure the client calls
		h = prog.NewHandlerAt(prog.Procedure(s.Cfg.Kind), s.HandlerKind, &hp, log, s.Cfg.HandlerOptions()...)
	}
	if s.HandlerExitDelayNS > 0 {
		inner := h
		h = http.HandlerFunc(func(w http.ResponseWriter, r *http.Request) {
			inner.ServeHTTP(w, r)
			time.Sleep(time.Duration(s.HandlerExitDelayNS))
		})
	}
	delays := map[string]time.Duration{}
	for _, d := range s.Delays {
		delays[d.Point] = time.Duration(d.NS)
	}
	err := pbt.Bubble(tt, func() error {
		if len(delays) > 0 {
			connect.VerifSetYield(func(point string) {
				if d := delays[point]; d > 0 {
					time.Sleep(d)
				}
			})
			defer connect.VerifSetYield(nil)
		}
		start := time.Now()
		var hc connect.HTTPClient
		var pn *memnet.PipeNet
		var mem *memnet.Mem
		switch s.Transport {
		case "h1", "h2c":
			pn = memnet.NewPipeNet(h, s.Transport == "h2c")
			hc = pn.Client
		default:
			mem = &memnet.Mem{Handler: h, ReqWindow: s.ReqWindow, RespWindow: s.RespWindow, LingerRequest: s.LingerRequest}
			hc = mem
		}
		cc := &countingClient{inner: hc, reqBodyDelay: time.Duration(s.ReqBodyDelayNS)}
		ctx, cancel := context.WithCancel(context.Background())
		if s.DeadlineNS > 0 {
			var c2 context.CancelFunc
			ctx, c2 = context.WithTimeout(ctx, time.Duration(s.DeadlineNS))
			defer c2()
		}
		go func() {
			<-ctx.Done()
			tr.CtxDoneAt = time.Since(start)
		}()
		if s.CancelNS < 0 {
			cancel()
			synctest.Wait()
		} else if s.CancelNS > 0 {
			time.AfterFunc(time.Duration(s.CancelNS), cancel)
		}
		cl := connect.NewClient[pingv1.PingRequest, pingv1.PingResponse](cc, prog.BaseURL+prog.Procedure(s.Cfg.Kind), s.Cfg.ClientOptions()...)
		cp := s.Client
		tr.Res = prog.RunClientTimed(ctx, cl, s.Cfg.Kind, &cp, cancel, start, &tr.OpTimes)
		tr.Elapsed = time.Since(start)
		// settle: let everything that can finish, finish (virtual time)
		time.Sleep(30 * time.Second)
		synctest.Wait()
		tr.Leftover = leftovers()
		cc.mu.Lock()
		tr.BodyCloses = cc.n
		tr.Responses = cc.resps
		cc.mu.Unlock()
		tr.Calls = log.Snapshot()
		// teardown (harness resources)
		cancel()
		if pn != nil {
			pn.Close()
		}
		time.Sleep(time.Second)
		synctest.Wait()
		for _, c := range log.Snapshot() {
			if c.CtxErrAtEnd != "" {
				tr.HandlerCtxDone = true
			}
		}
		return nil
	})
	if err != nil {
		return tr, fmt.Errorf("%v", err)
	}
	return tr, nil
}
