// Package harn has small helpers shared by the check packages.
package harn

import (
	"net/http"
	"testing"
	"testing/synctest"

	connect "github.com/bufbuild/connect-go"
	"github.com/bufbuild/connect-go/verif/memnet"
	"github.com/bufbuild/connect-go/verif/pbt"
)

// Over runs f with an HTTPClient that reaches h over the named transport:
// "mem" (in-memory, HTTP/2 semantics), "mem1" (in-memory, HTTP/1.1 version
// numbers), "h1" / "h2c" (real net/http over net.Pipe inside a bubble).
// mem is non-nil for the in-memory transports (gives access to the tap).
func Over(tt *testing.T, transport string, h http.Handler, f func(hc connect.HTTPClient, mem *memnet.Mem)) error {
	switch transport {
	case "h1", "h2c":
		return pbt.Bubble(tt, func() error {
			pn := memnet.NewPipeNet(h, transport == "h2c")
			f(pn.Client, nil)
			pn.Close()
			synctest.Wait()
			return nil
		})
	default:
		// also inside a bubble: if a defect makes both sides wait for each
		// other, the bubble reports a deadlock instead of hanging the test
		return pbt.Bubble(tt, func() error {
			mem := &memnet.Mem{Handler: h}
			if transport == "mem1" {
				mem.ProtoMajor = 1
			}
			f(mem, mem)
			if ex := mem.Last(); ex != nil {
				<-ex.HandlerDone()
			}
			return nil
		})
	}
}
