package c10

import (
	"bytes"
	"context"
	"fmt"
	"math"
	"net/http"
	"strings"
	"sync"
	"testing"
	"time"

	connect "github.com/bufbuild/connect-go"
	"github.com/bufbuild/connect-go/verif/harn"
	"github.com/bufbuild/connect-go/verif/memnet"
	"github.com/bufbuild/connect-go/verif/pbt"
	"github.com/bufbuild/connect-go/verif/prog"
	"github.com/bufbuild/connect-go/verif/refwire"
	"pgregory.net/rapid"
)

var units = []int64{1, 1e3, 1e6, 1e9, 60e9, 3600e9}

// durGen draws durations in (0, 2^63) ns stratified over unit × digit-count boundaries.
func durGen(t *rapid.T) int64 {
	switch rapid.IntRange(0, 5).Draw(t, "dclass") {
	case 0:
		u := rapid.SampledFrom(units).Draw(t, "unit")
		k := rapid.IntRange(0, 11).Draw(t, "digits")
		d := rapid.Int64Range(-3, 3).Draw(t, "delta")
		m := rapid.SampledFrom([]int64{1, 1, 9, 5}).Draw(t, "mant")
		f := math.Pow10(k) * float64(u) * float64(m)
		if f >= math.MaxInt64/2 {
			return math.MaxInt64 - rapid.Int64Range(0, 5).Draw(t, "top")
		}
		v := int64(math.Pow10(k))*u*m + d
		if m == 9 {
			// 99..9 boundary: (10^(k+1) - 1) * u
			v = (int64(math.Pow10(k+1))-1)*u + d
		}
		if v <= 0 {
			v = 1
		}
		return v
	case 1:
		return rapid.SampledFrom([]int64{1, 999, 1000, 999_999, 1_000_000, 1_000_001, 9_999_999, 10_000_000, 99_999_999, 100_000_000,
			9_999_999_999 * 1e6, 9_999_999_999*1e6 + 999_999, 10_000_000_000 * 1e6, 10_000_000_000*1e6 - 1, math.MaxInt64, math.MaxInt64 - 1,
			2562047 * 3600e9, 2562047*3600e9 + 1, 9_999_999 * 3600e9 / 1000, 99_999_999 * 60e9}).Draw(t, "special")
	case 2:
		// log-uniform
		e := rapid.IntRange(0, 62).Draw(t, "exp")
		lo := int64(1) << e
		return lo + rapid.Int64Range(0, lo-1).Draw(t, "mantissa")
	default:
		return rapid.Int64Range(1, math.MaxInt64).Draw(t, "uniform")
	}
}

// ---- encode side ----

type EncCase struct {
	Protocol string `json:"protocol"`
	Kind     string `json:"kind"`
	D        int64  `json:"d_ns"` // 0: no deadline
	// Source says who puts the deadline on the call's context: "" / "caller"
	// (the context passed to the call), "interceptor" (a client interceptor
	// derives it), "interceptor-shortens" (the caller's is twice as long).
	Source string `json:"source,omitempty"`
}

// deadliner is a client interceptor that gives every call a timeout, the way
// a "default timeout" interceptor does.
type deadliner struct {
	d       time.Duration
	mu      sync.Mutex
	cancels []context.CancelFunc
}

func (d *deadliner) WrapUnary(next connect.UnaryFunc) connect.UnaryFunc {
	return func(ctx context.Context, req connect.AnyRequest) (connect.AnyResponse, error) {
		if !req.Spec().IsClient {
			return next(ctx, req)
		}
		ctx, cancel := context.WithTimeout(ctx, d.d)
		defer cancel()
		return next(ctx, req)
	}
}

func (d *deadliner) WrapStreamingClient(next connect.StreamingClientFunc) connect.StreamingClientFunc {
	return func(ctx context.Context, spec connect.Spec) connect.StreamingClientConn {
		ctx, cancel := context.WithTimeout(ctx, d.d)
		d.mu.Lock()
		d.cancels = append(d.cancels, cancel)
		d.mu.Unlock()
		return next(ctx, spec)
	}
}

func (d *deadliner) WrapStreamingHandler(next connect.StreamingHandlerFunc) connect.StreamingHandlerFunc {
	return next
}

func (d *deadliner) release() {
	d.mu.Lock()
	defer d.mu.Unlock()
	for _, c := range d.cancels {
		c()
	}
}

// deadlineSetup returns the context to call with and the extra client options
// that realise (D, source).
func deadlineSetup(d int64, source string) (context.Context, func(), []connect.ClientOption) {
	ctx := context.Background()
	if d <= 0 {
		return ctx, func() {}, nil
	}
	switch source {
	case "interceptor", "interceptor-shortens":
		cancel := func() {}
		if source == "interceptor-shortens" && d < math.MaxInt64/2 {
			ctx, cancel = context.WithTimeout(ctx, time.Duration(2*d))
		}
		di := &deadliner{d: time.Duration(d)}
		return ctx, func() { di.release(); cancel() }, []connect.ClientOption{connect.WithInterceptors(di)}
	}
	ctx, cancel := context.WithTimeout(ctx, time.Duration(d))
	return ctx, cancel, nil
}

func sourceGen(t *rapid.T) string {
	return rapid.SampledFrom([]string{"caller", "caller", "interceptor", "interceptor-shortens"}).Draw(t, "source")
}

func timeoutHeader(protocol string) string {
	if protocol == "connect" {
		return "Connect-Timeout-Ms"
	}
	return "Grpc-Timeout"
}

func checkEnc(tt *testing.T, c EncCase) (pbt.Info, error) {
	var info pbt.Info
	info.Label("proto:" + c.Protocol)
	var got []string
	var verr error
	berr := pbt.Bubble(tt, func() error {
		resp, _ := refwire.BuildResponse(&refwire.RespSpec{Protocol: c.Protocol, Kind: c.Kind, ContentType: refwire.ContentType(c.Protocol, c.Kind, "proto"), Msgs: [][]byte{nil}})
		sc := memnet.NewScript(resp.Status, resp.Header, bytes.NewReader(resp.Body), resp.Trailer)
		ctx, cancel, extra := deadlineSetup(c.D, c.Source)
		defer cancel()
		cfg := prog.Config{Protocol: c.Protocol, Codec: "proto", Kind: c.Kind}
		cp := &prog.ClientProg{Msgs: []prog.Msg{{N: 1}}}
		if c.Kind == prog.Bidi {
			cp.Ops = []prog.COp{{Op: "send", Msg: &prog.Msg{N: 1}}, {Op: "closereq"}, {Op: "recvall"}, {Op: "closeresp"}}
		}
		_ = prog.RunClient(ctx, sc, cfg, cp, nil, extra...)
		sc.WaitRequest()
		got = sc.ReqHeader.Values(timeoutHeader(c.Protocol))
		return nil
	})
	if berr != nil {
		return info, berr
	}
	where := fmt.Sprintf("%s %s client, remaining %d ns (deadline set by %s)", c.Protocol, c.Kind, c.D, c.Source)
	info.Label("source:" + c.Source)
	if c.D == 0 {
		info.Label("no-deadline")
		if len(got) != 0 {
			return info, fmt.Errorf("%s: no client deadline but timeout header %q was sent", where, got)
		}
		return info, verr
	}
	var gran int64
	var maxExpr int64 = math.MaxInt64
	if c.Protocol == "connect" {
		gran = 1e6
		maxExpr = 9_999_999_999 * 1e6
	} else {
		gran = c.D/10000 + 1 // < 0.01 % of the remaining time
		if c.D < 10000 {
			gran = 1
		}
	}
	// non-trivial: within one granule of a digit/unit boundary
	for _, u := range units {
		for k := 0; k <= 11; k++ {
			b := math.Pow10(k) * float64(u)
			if b < math.MaxInt64/2 && abs64(c.D-int64(b)) <= 1e6 {
				info.NonTrivial = true
			}
		}
	}
	if c.D > maxExpr-1e6 {
		info.NonTrivial = true
		info.Label("near-or-beyond-max-expressible")
	}
	if len(got) > 1 {
		return info, fmt.Errorf("%s: %d timeout headers %q", where, len(got), got)
	}
	if len(got) == 0 {
		if c.Protocol == "connect" && (c.D < 1e6 || c.D > maxExpr) {
			info.Label("omitted")
			return info, nil // below one granule (grey) or too large to express
		}
		return info, fmt.Errorf("%s: no timeout header sent although the remaining time is expressible", where)
	}
	var T int64
	if c.Protocol == "connect" {
		ms, err := refwire.ParseConnectTimeout(got[0])
		if err != nil {
			return info, fmt.Errorf("%s: header %q violates the grammar: %v", where, got[0], err)
		}
		T = ms * 1e6
	} else {
		ns, overflow, err := refwire.ParseGRPCTimeout(got[0])
		if err != nil {
			return info, fmt.Errorf("%s: header %q violates the grammar: %v", where, got[0], err)
		}
		if overflow {
			return info, fmt.Errorf("%s: header %q is longer than any representable duration", where, got[0])
		}
		T = ns
	}
	if T > c.D {
		return info, fmt.Errorf("%s: header %q = %d ns is LONGER than the time remaining", where, got[0], T)
	}
	if c.D-T >= gran {
		return info, fmt.Errorf("%s: header %q = %d ns is shorter than the remaining time by %d ns (granularity allows < %d)", where, got[0], T, c.D-T, gran)
	}
	return info, nil
}

func abs64(x int64) int64 {
	if x < 0 {
		return -x
	}
	return x
}

var specEnc = pbt.Spec[EncCase]{
	Prop: "C10", Name: "encode",
	Gen: func(t *rapid.T) EncCase {
		c := EncCase{Protocol: rapid.SampledFrom(prog.Protocols).Draw(t, "protocol"), Kind: rapid.SampledFrom(prog.Kinds).Draw(t, "kind")}
		if rapid.IntRange(0, 9).Draw(t, "nodeadline") != 0 {
			c.D = durGen(t)
			c.Source = sourceGen(t)
		}
		return c
	},
	Check: checkEnc,
	Rule:  "client calls inside a synctest bubble (time.Until is exact) with the deadline put on the context by the caller or by a client interceptor (a default-timeout interceptor, alone or shortening the caller's), remaining time drawn from every unit × digit-count boundary ±3 ns, the 10-digit Connect limit, MaxInt64, log-uniform and uniform values, or no deadline; the timeout header seen by HTTPClient.Do is parsed by the reference grammar; oracle: T ≤ remaining, remaining − T < granularity (1 ms Connect, 0.01 % gRPC), grammar respected, inexpressible ⇒ omitted, no deadline ⇒ no header; non-trivial = within 1 ms of a unit/digit boundary or of the largest expressible value",
}

func TestEncode(t *testing.T) { pbt.Run(t, specEnc) }

// ---- decode side ----

type DecCase struct {
	Protocol string `json:"protocol"`
	Kind     string `json:"kind"`
	Header   string `json:"header"`
	Class    string `json:"class"` // grammatical | malformed | grey
}

func classify(protocol, h string) string {
	digits := func(s string) bool {
		if s == "" {
			return false
		}
		for _, c := range []byte(s) {
			if c < '0' || c > '9' {
				return false
			}
		}
		return true
	}
	if protocol == "connect" {
		switch {
		case digits(h) && len(h) <= 10:
			if strings.Trim(h, "0") == "" {
				return "grey" // zero timeout
			}
			return "grammatical"
		case h == "":
			return "absent"
		case len(h) > 1 && (h[0] == '+' || h[0] == '-') && digits(h[1:]):
			return "grey" // signed numbers
		case digits(h) && strings.TrimLeft(h, "0") != h && len(strings.TrimLeft(h, "0")) <= 10:
			return "grey" // more digits than the grammar, in-range magnitude
		default:
			return "malformed"
		}
	}
	if h == "" {
		return "absent"
	}
	num, unit := h[:len(h)-1], h[len(h)-1]
	validUnit := strings.ContainsRune("HMSmun", rune(unit))
	switch {
	case validUnit && digits(num) && len(num) <= 8:
		if strings.Trim(num, "0") == "" {
			return "grey" // zero timeout: already expired, user code may legitimately not run
		}
		return "grammatical"
	case validUnit && len(num) > 1 && (num[0] == '+' || num[0] == '-') && digits(num[1:]):
		return "grey"
	case validUnit && digits(num) && len(strings.TrimLeft(num, "0")) <= 8:
		return "grey" // leading zeros beyond 8 digits
	default:
		return "malformed"
	}
}

func checkDec(tt *testing.T, c DecCase) (pbt.Info, error) {
	var info pbt.Info
	cls := classify(c.Protocol, c.Header)
	info.Label("proto:" + c.Protocol)
	info.Label("class:" + cls)
	info.NonTrivial = cls != "absent"
	var rec *memnet.Recorded
	var calls []*prog.HCall
	var start time.Time
	berr := pbt.Bubble(tt, func() error {
		log := &prog.HLog{}
		h := prog.NewHandler(c.Kind, &prog.HandlerProg{Drain: true, Resp: &prog.Msg{N: 1}}, log)
		req := refwire.BuildRequest(&refwire.ReqSpec{Protocol: c.Protocol, Kind: c.Kind, Codec: "proto", Msgs: [][]byte{refwire.EncodePing("proto", 1, "")}})
		if c.Header != "" {
			req.Header[timeoutHeader(c.Protocol)] = []string{c.Header}
		}
		start = time.Now()
		rec = memnet.Serve(h, "POST", prog.Procedure(c.Kind), req.Header, bytes.NewReader(req.Body), memnet.ServeOpts{})
		calls = log.Snapshot()
		return nil
	})
	if berr != nil {
		return info, berr
	}
	where := fmt.Sprintf("%s %s handler, timeout header %q (%s)", c.Protocol, c.Kind, c.Header, cls)
	if rec.Panicked {
		return info, fmt.Errorf("%s: ServeHTTP panicked: %v", where, rec.PanicValue)
	}
	if len(calls) > 1 {
		return info, fmt.Errorf("%s: user code ran %d times", where, len(calls))
	}
	dec, derr := refwire.DecodeResponse(c.Protocol, c.Kind, refwire.ContentType(c.Protocol, c.Kind, "proto"), &refwire.Response{Status: rec.Status, Header: rec.Header, Body: rec.Body, Trailer: rec.Trailer})
	switch cls {
	case "absent":
		if len(calls) != 1 || calls[0].HasDeadline {
			return info, fmt.Errorf("%s: no timeout header, but handler ran %d times / has deadline", where, len(calls))
		}
	case "grammatical":
		if len(calls) != 1 {
			return info, fmt.Errorf("%s: grammatical timeout but user code ran %d times (status %d, %v)", where, len(calls), rec.Status, derr)
		}
		var want int64
		overflow := false
		if c.Protocol == "connect" {
			ms, _ := refwire.ParseConnectTimeout(c.Header)
			want = ms * 1e6
		} else {
			want, overflow, _ = refwire.ParseGRPCTimeout(c.Header)
		}
		if overflow {
			if calls[0].HasDeadline {
				return info, fmt.Errorf("%s: value exceeds time.Duration, handler must be unbounded but has deadline %v", where, calls[0].Deadline.Sub(start))
			}
			info.Label("unrepresentable-unbounded")
			return info, nil
		}
		if !calls[0].HasDeadline {
			return info, fmt.Errorf("%s: handler context has no deadline", where)
		}
		if got := calls[0].Deadline.Sub(start); int64(got) != want {
			return info, fmt.Errorf("%s: handler deadline is start+%d ns, header means %d ns", where, int64(got), want)
		}
	case "malformed":
		if len(calls) != 0 {
			return info, fmt.Errorf("%s: malformed timeout but user code ran", where)
		}
		if derr != nil {
			return info, fmt.Errorf("%s: rejection is not a well-formed response: %v", where, derr)
		}
		if dec.Status.Code != uint32(connect.CodeInvalidArgument) {
			return info, fmt.Errorf("%s: rejected with code %d, want invalid_argument", where, dec.Status.Code)
		}
	default: // grey: either rejection or a deadline
		if len(calls) == 0 {
			if derr != nil || dec.Status.Code == 0 {
				return info, fmt.Errorf("%s: user code did not run but the response is not an error (%v)", where, derr)
			}
		}
		// a zero timeout is grammatical: whether user code still runs is open,
		// but if it does, its context carries that (already expired) deadline
		// — never none
		num := c.Header
		if c.Protocol != "connect" && len(num) > 0 {
			num = num[:len(num)-1]
		}
		if len(calls) == 1 && num != "" && strings.Trim(num, "0") == "" {
			info.Label("zero-timeout-and-user-code-ran")
			if !calls[0].HasDeadline {
				return info, fmt.Errorf("%s: zero timeout, user code ran WITHOUT a deadline", where)
			}
			if got := calls[0].Deadline.Sub(start); got > 0 {
				return info, fmt.Errorf("%s: zero timeout, but the handler's deadline is start+%v", where, got)
			}
		}
	}
	return info, nil
}

var malformedSeeds = []string{"5", "S", "5s", "5x", "5 S", " 5S", "5S ", "1.5S", "1e3S", "0x5S", "abcS", "999999999S", "100000000n", "１S", "5Ｓ", "5\x00S", "SS", "5SS", "--5S", "+S", "5µ", "n5", "18446744073709551616n", "", "10000000000S", "100000000H", "999999999999M", "99999999999999999u", "123456789012345678901234567890n"}

var specDec = pbt.Spec[DecCase]{
	Prop: "C10", Name: "decode",
	Gen: func(t *rapid.T) DecCase {
		c := DecCase{Protocol: rapid.SampledFrom(prog.Protocols).Draw(t, "protocol"), Kind: rapid.SampledFrom(prog.Kinds).Draw(t, "kind")}
		switch rapid.IntRange(0, 4).Draw(t, "hclass") {
		case 0, 1:
			// grammatical
			if rapid.IntRange(0, 9).Draw(t, "zero") == 0 {
				c.Header = strings.Repeat("0", rapid.IntRange(1, 8).Draw(t, "nzeros"))
				if c.Protocol != "connect" {
					c.Header += rapid.SampledFrom([]string{"H", "M", "S", "m", "u", "n"}).Draw(t, "unit")
				}
				break
			}
			if c.Protocol == "connect" {
				n := rapid.IntRange(1, 10).Draw(t, "ndigits")
				c.Header = rapid.StringMatching(fmt.Sprintf("[0-9]{%d}", n)).Draw(t, "digits")
			} else {
				n := rapid.IntRange(1, 8).Draw(t, "ndigits")
				c.Header = rapid.StringMatching(fmt.Sprintf("[0-9]{%d}", n)).Draw(t, "digits") + rapid.SampledFrom([]string{"H", "M", "S", "m", "u", "n"}).Draw(t, "unit")
			}
		case 2:
			c.Header = rapid.SampledFrom(malformedSeeds).Draw(t, "seed")
			if c.Protocol == "connect" {
				c.Header = rapid.SampledFrom([]string{"5S", "5m", "abc", "1.5", "1e3", "0x10", "12345678901", "99999999999999999999", " 5", "5 ", "５", "5\x00", "--5", "", "1,000", "10000000000", "123456789012345678901234567890"}).Draw(t, "cseed")
			}
		case 3:
			if rapid.Bool().Draw(t, "overlong") {
				// more digits than the grammar allows, first digit non-zero (so the
				// magnitude is beyond the limit, possibly beyond time.Duration)
				n := rapid.IntRange(9, 25).Draw(t, "ndigits")
				if c.Protocol == "connect" {
					n = rapid.IntRange(11, 25).Draw(t, "cdigits")
				}
				c.Header = rapid.StringMatching(fmt.Sprintf("[1-9][0-9]{%d}", n-1)).Draw(t, "digits")
				if c.Protocol != "connect" {
					c.Header += rapid.SampledFrom([]string{"H", "M", "S", "m", "u", "n"}).Draw(t, "unit")
				}
				break
			}
			// near-grammatical: mutate a grammatical one
			base := "1234S"
			if c.Protocol == "connect" {
				base = "12345"
			}
			b := []byte(base)
			i := rapid.IntRange(0, len(b)-1).Draw(t, "pos")
			b[i] = byte(rapid.IntRange(0, 255).Draw(t, "byte"))
			c.Header = string(b)
		default:
			c.Header = string(rapid.SliceOfN(rapid.Byte(), 0, 14).Draw(t, "bytes"))
		}
		return c
	},
	Check: checkDec,
	Rule:  "timeout header strings (grammatical with every unit and 1..8 resp. 1..10 digits incl. leading zeros; hand-picked malformed ones: no/unknown unit, empty number, letters, decimals, blanks, non-ASCII digits, too many digits; single-byte mutations; random bytes) served synchronously inside a bubble; oracle: grammatical ⇒ handler deadline == start + value exactly (unbounded if beyond time.Duration), clearly malformed ⇒ invalid_argument in a well-formed response and user code never runs, grey spellings (signs, zero, extra leading zeros) ⇒ rejection or run, never a panic; non-trivial = a header is present",
}

func TestDecode(t *testing.T) { pbt.Run(t, specDec) }

// ---- end to end over the real net/http stack ----

type E2ECase struct {
	Protocol  string `json:"protocol"`
	Kind      string `json:"kind"`
	Transport string `json:"transport"`
	D         int64  `json:"d_ns"`
	Source    string `json:"source,omitempty"` // see EncCase
}

func checkE2E(tt *testing.T, c E2ECase) (pbt.Info, error) {
	info := pbt.Info{NonTrivial: c.D > 0}
	info.Label("transport:" + c.Transport)
	log := &prog.HLog{}
	h := prog.NewHandler(c.Kind, &prog.HandlerProg{Drain: true, Resp: &prog.Msg{N: 1}}, log)
	var start time.Time
	var res *prog.CResult
	if err := harn.Over(tt, c.Transport, h, func(hc connect.HTTPClient, mem *memnet.Mem) {
		start = time.Now()
		ctx, cancel, extra := deadlineSetup(c.D, c.Source)
		defer cancel()
		cfg := prog.Config{Protocol: c.Protocol, Codec: "proto", Kind: c.Kind}
		cp := &prog.ClientProg{Msgs: []prog.Msg{{N: 1}}}
		if c.Kind == prog.Bidi {
			cp.Ops = []prog.COp{{Op: "send", Msg: &prog.Msg{N: 1}}, {Op: "closereq"}, {Op: "recvall"}, {Op: "closeresp"}}
		}
		res = prog.RunClient(ctx, hc, cfg, cp, nil, extra...)
	}); err != nil {
		return info, err
	}
	where := fmt.Sprintf("%s %s over %s, client deadline in %d ns (set by %s)", c.Protocol, c.Kind, c.Transport, c.D, c.Source)
	info.Label("source:" + c.Source)
	calls := log.Snapshot()
	if len(calls) != 1 {
		return info, fmt.Errorf("%s: handler ran %d times (%v)", where, len(calls), res.Err)
	}
	if c.D == 0 {
		if calls[0].HasDeadline {
			return info, fmt.Errorf("%s: client has no deadline but the handler's context has one", where)
		}
		return info, nil
	}
	if !calls[0].HasDeadline {
		if c.Protocol == "connect" && c.D > 9_999_999_999*1e6 {
			return info, nil
		}
		return info, fmt.Errorf("%s: handler context has no deadline", where)
	}
	hd := int64(calls[0].Deadline.Sub(start))
	gran := int64(1e6)
	if c.Protocol != "connect" {
		gran = c.D/10000 + 1
	}
	if hd > c.D {
		return info, fmt.Errorf("%s: handler deadline (start+%d ns) is LATER than the client's (start+%d ns)", where, hd, c.D)
	}
	if c.D-hd >= gran {
		return info, fmt.Errorf("%s: handler deadline is %d ns earlier than the client's (granularity allows < %d)", where, c.D-hd, gran)
	}
	return info, nil
}

var specE2E = pbt.Spec[E2ECase]{
	Prop: "C10", Name: "end-to-end",
	Gen: func(t *rapid.T) E2ECase {
		c := E2ECase{Protocol: rapid.SampledFrom(prog.Protocols).Draw(t, "protocol"), Kind: rapid.SampledFrom(prog.Kinds).Draw(t, "kind"), Transport: rapid.SampledFrom([]string{"h1", "h2c"}).Draw(t, "transport")}
		if c.Transport == "h1" && c.Kind == prog.Bidi {
			c.Kind = prog.Unary
		}
		if rapid.IntRange(0, 9).Draw(t, "nodeadline") != 0 {
			// at least 1 ms so that the call itself cannot expire (virtual time does not advance while it runs)
			c.D = max(durGen(t), 1e6)
			c.Source = sourceGen(t)
		}
		return c
	},
	Check: checkE2E,
	Rule:  "client deadline → real net/http (HTTP/1.1, h2c over net.Pipe, synctest bubble, virtual time) → handler context: handler deadline ≤ client deadline and earlier by less than the encoding granularity; no client deadline ⇒ none on the handler; non-trivial = a deadline is set",
}

func TestEndToEnd(t *testing.T) { pbt.Run(t, specE2E) }

func TestReplay(t *testing.T) {
	pbt.ReplayMain(t, pbt.Replayer(specEnc), pbt.Replayer(specDec), pbt.Replayer(specE2E))
}

var _ = http.StatusOK
