package c14

import (
	"fmt"
	"strings"
	"testing"
	"time"

	"github.com/bufbuild/connect-go/verif/pbt"
	"github.com/bufbuild/connect-go/verif/prog"
	"github.com/bufbuild/connect-go/verif/sched"
	"pgregory.net/rapid"
)

type Case struct {
	Family string         `json:"family"`
	S      sched.Scenario `json:"s"`
}

func msg(i int, size int) *prog.Msg { return &prog.Msg{N: int64(i + 1), TLen: size, TSeed: i} }

func genDelays(t *rapid.T) []sched.Delay {
	n := rapid.SampledFrom([]int{0, 0, 1, 1, 2}).Draw(t, "ndelays")
	var out []sched.Delay
	for i := 0; i < n; i++ {
		out = append(out, sched.Delay{Point: rapid.SampledFrom(sched.Points).Draw(t, "point"), NS: rapid.SampledFrom([]int64{1e6, 50e6, 2e9}).Draw(t, "delay")})
	}
	return out
}

func finalGen(t *rapid.T) *prog.ErrSpec {
	if rapid.Bool().Draw(t, "fails") {
		return &prog.ErrSpec{Code: uint32(rapid.IntRange(1, 16).Draw(t, "code")), Msg: rapid.SampledFrom([]string{"handler failed", "", "nope"}).Draw(t, "errmsg")}
	}
	return nil
}

func gen(t *rapid.T) Case {
	c := Case{Family: rapid.SampledFrom([]string{"closes", "pingpong", "early-exit", "early-exit", "cancel", "typed", "oversize"}).Draw(t, "family")}
	s := &c.S
	s.Cfg = prog.Config{Protocol: rapid.SampledFrom(prog.Protocols).Draw(t, "protocol"), Codec: "proto", Kind: prog.Bidi}
	s.Transport = rapid.SampledFrom([]string{"mem", "h2c"}).Draw(t, "transport")
	s.Delays = genDelays(t)
	if rapid.IntRange(0, 3).Draw(t, "slowReqBody") == 0 {
		// the transport's request-body writer lags behind
		s.ReqBodyDelayNS = rapid.SampledFrom([]int64{1e6, 100e6}).Draw(t, "reqBodyDelay")
		// … and the transport-level end of the response comes later than the
		// protocol-level terminator (work done after the handler returned)
		s.HandlerExitDelayNS = rapid.SampledFrom([]int64{0, 50e6, 500e6}).Draw(t, "handlerExitDelay")
	}
	sizes := []int{0, 10, 3000}
	switch c.Family {
	case "closes":
		a := rapid.IntRange(0, 3).Draw(t, "sends")
		i := rapid.SampledFrom([]int{-1, 0, 1, 2}).Draw(t, "recvs")
		j := rapid.IntRange(0, 3).Draw(t, "hsends")
		if i != 0 {
			s.Handler.Steps = append(s.Handler.Steps, prog.HStep{Op: "recv", N: i})
		}
		if rapid.Bool().Draw(t, "hsleep") {
			s.Handler.Steps = append(s.Handler.Steps, prog.HStep{Op: "sleep", D: 1e9})
		}
		for k := 0; k < j; k++ {
			s.Handler.Steps = append(s.Handler.Steps, prog.HStep{Op: "send", Msg: msg(k, rapid.SampledFrom(sizes).Draw(t, "hsize"))})
		}
		s.Handler.Drain = rapid.Bool().Draw(t, "drain")
		s.Handler.Final = finalGen(t)
		for k := 0; k < a; k++ {
			s.Client.Ops = append(s.Client.Ops, prog.COp{Op: "send", Msg: msg(k, rapid.SampledFrom(sizes).Draw(t, "csize"))})
		}
		s.Client.Ops = append(s.Client.Ops, prog.COp{Op: "closereq"}, prog.COp{Op: "recvall"}, prog.COp{Op: "closeresp"})
	case "pingpong":
		k := rapid.IntRange(1, 4).Draw(t, "rounds")
		extra := rapid.IntRange(0, 2).Draw(t, "extra")
		for r := 0; r < k; r++ {
			s.Handler.Steps = append(s.Handler.Steps, prog.HStep{Op: "recv", N: 1}, prog.HStep{Op: "send", Msg: msg(r, rapid.SampledFrom(sizes).Draw(t, "hsize"))})
			s.Client.Ops = append(s.Client.Ops, prog.COp{Op: "send", Msg: msg(r, rapid.SampledFrom(sizes).Draw(t, "csize"))}, prog.COp{Op: "recv"})
		}
		for r := 0; r < extra; r++ {
			s.Handler.Steps = append(s.Handler.Steps, prog.HStep{Op: "send", Msg: msg(k+r, 5)})
		}
		s.Handler.Drain = rapid.Bool().Draw(t, "drain")
		s.Handler.Final = finalGen(t)
		s.Client.Ops = append(s.Client.Ops, prog.COp{Op: "closereq"}, prog.COp{Op: "recvall"}, prog.COp{Op: "closeresp"})
	case "early-exit":
		// a transport that keeps swallowing request bytes after the response
		// is complete: only the library can make later Sends fail then
		s.LingerRequest = s.Transport == "mem" && rapid.Bool().Draw(t, "linger")
		i := rapid.IntRange(0, 2).Draw(t, "recvs")
		j := rapid.IntRange(0, 2).Draw(t, "hsends")
		if i > 0 {
			s.Handler.Steps = append(s.Handler.Steps, prog.HStep{Op: "recv", N: i})
		}
		for k := 0; k < j; k++ {
			s.Handler.Steps = append(s.Handler.Steps, prog.HStep{Op: "send", Msg: msg(k, 20)})
		}
		s.Handler.Final = finalGen(t)
		m := i + rapid.IntRange(1, 6).Draw(t, "moresends")
		big := rapid.SampledFrom([]int{10, 3000, 200000}).Draw(t, "csize")
		if rapid.IntRange(0, 5).Draw(t, "flood") == 0 {
			// far more than any transport buffers: once the handler is gone,
			// somebody has to tell the sender
			m, big = i+20, 200000
		}
		for k := 0; k < m; k++ {
			if k == i {
				// by now the handler has certainly finished (virtual time)
				s.Client.Ops = append(s.Client.Ops, prog.COp{Op: "sleep", D: 5e9})
			}
			s.Client.Ops = append(s.Client.Ops, prog.COp{Op: "send", Msg: msg(k, big)})
		}
		if rapid.Bool().Draw(t, "sendAfterOutcome") {
			// learn the handler's outcome first, then keep sending
			s.Client.Ops = append(s.Client.Ops, prog.COp{Op: "recvall"}, prog.COp{Op: "send", Msg: msg(40, 10)}, prog.COp{Op: "send", Msg: msg(41, big)}, prog.COp{Op: "closereq"}, prog.COp{Op: "recv"}, prog.COp{Op: "closeresp"})
		} else {
			s.Client.Ops = append(s.Client.Ops, prog.COp{Op: "closereq"}, prog.COp{Op: "recvall"}, prog.COp{Op: "recv"}, prog.COp{Op: "recv"}, prog.COp{Op: "closeresp"})
		}
	case "cancel":
		// a prefix of a closing program, then cancel, then arbitrary further operations
		k := rapid.IntRange(0, 2).Draw(t, "rounds")
		for r := 0; r < k; r++ {
			s.Handler.Steps = append(s.Handler.Steps, prog.HStep{Op: "recv", N: 1}, prog.HStep{Op: "send", Msg: msg(r, 10)})
			s.Client.Ops = append(s.Client.Ops, prog.COp{Op: "send", Msg: msg(r, 10)}, prog.COp{Op: "recv"})
		}
		s.Handler.Drain = true
		s.Handler.Final = finalGen(t)
		// (with k == 0 and no Send the context ends before the call has done
		// anything at all: the request may not even have been started)
		started := k > 0
		if rapid.Bool().Draw(t, "sendfirst") {
			s.Client.Ops = append(s.Client.Ops, prog.COp{Op: "send", Msg: msg(9, 10)})
			started = true
		}
		s.Client.Ops = append(s.Client.Ops, prog.COp{Op: "cancel"})
		na := rapid.IntRange(0, 4).Draw(t, "nafter")
		if !started {
			na = max(na, 1)
		}
		for r := 0; r < na; r++ {
			op := rapid.SampledFrom([]string{"send", "recv", "closereq", "closeresp"}).Draw(t, "afterop")
			if !started {
				// the statement's programs start the request side before
				// using the response side
				op = rapid.SampledFrom([]string{"send", "closereq"}).Draw(t, "firstop")
				started = true
			}
			co := prog.COp{Op: op}
			if op == "send" {
				co.Msg = msg(20+r, 10)
			}
			s.Client.Ops = append(s.Client.Ops, co)
		}
	case "oversize":
		// the client has a read limit; the handler sends a message above it in
		// the middle of its response stream, and the client keeps receiving
		s.Cfg.CReadMax = 1000
		before := rapid.IntRange(0, 2).Draw(t, "before")
		after := rapid.IntRange(1, 3).Draw(t, "after")
		s.Handler.Steps = append(s.Handler.Steps, prog.HStep{Op: "recv", N: 1})
		for k := 0; k < before; k++ {
			s.Handler.Steps = append(s.Handler.Steps, prog.HStep{Op: "send", Msg: msg(k, 10)})
		}
		s.Handler.Steps = append(s.Handler.Steps, prog.HStep{Op: "send", Msg: msg(before, rapid.SampledFrom([]int{1001, 3000, 70000}).Draw(t, "bigsize"))})
		for k := 0; k < after; k++ {
			s.Handler.Steps = append(s.Handler.Steps, prog.HStep{Op: "send", Msg: msg(before+1+k, 10)})
		}
		s.Handler.Drain = true
		s.Client.Ops = append(s.Client.Ops, prog.COp{Op: "send", Msg: msg(0, 10)})
		// The client closes its request side first, so that the (draining)
		// handler terminates on its own. Without that the gRPC client's Receive,
		// having rejected the oversized message, waits for the trailers of a
		// stream whose handler in turn waits for the client: a circular wait of
		// the two programs, not something the property speaks about.
		s.Client.Ops = append(s.Client.Ops, prog.COp{Op: "closereq"})
		for k := 0; k < before+1+after+1; k++ {
			s.Client.Ops = append(s.Client.Ops, prog.COp{Op: "recv"})
		}
		s.Client.Ops = append(s.Client.Ops, prog.COp{Op: "closereq"}, prog.COp{Op: "closeresp"})
	case "typed":
		s.Cfg.Kind = rapid.SampledFrom([]string{prog.Unary, prog.Client, prog.Server}).Draw(t, "kind")
		s.Transport = rapid.SampledFrom([]string{"mem", "h1", "h2c"}).Draw(t, "transport")
		if rapid.Bool().Draw(t, "hsleep") {
			s.Handler.Steps = append(s.Handler.Steps, prog.HStep{Op: "sleep", D: 1e9})
		}
		switch s.Cfg.Kind {
		case prog.Client:
			s.Handler.Steps = append(s.Handler.Steps, prog.HStep{Op: "recv", N: rapid.SampledFrom([]int{-1, 0, 1}).Draw(t, "recvs")})
			for k := 0; k < rapid.IntRange(0, 3).Draw(t, "sends"); k++ {
				s.Client.Msgs = append(s.Client.Msgs, *msg(k, rapid.SampledFrom(sizes).Draw(t, "csize")))
			}
		case prog.Server:
			for k := 0; k < rapid.IntRange(0, 3).Draw(t, "hsends"); k++ {
				s.Handler.Steps = append(s.Handler.Steps, prog.HStep{Op: "send", Msg: msg(k, rapid.SampledFrom(sizes).Draw(t, "hsize"))})
			}
			s.Client.Msgs = []prog.Msg{*msg(0, 10)}
		default:
			s.Client.Msgs = []prog.Msg{*msg(0, 10)}
		}
		s.Handler.Resp = msg(7, 10)
		s.Handler.Final = finalGen(t)
		if len(s.Client.Msgs) > 0 && rapid.IntRange(0, 5).Draw(t, "badRequest") == 0 {
			// the (last) request message cannot be marshalled: Send fails on
			// the client before anything of it reaches the wire
			s.Client.Msgs[len(s.Client.Msgs)-1].Bad = true
		} else if (s.Cfg.Kind == prog.Unary || s.Cfg.Kind == prog.Client) && rapid.IntRange(0, 3).Draw(t, "mismatch") == 0 {
			// the peer answers a single-response call with a stream of messages
			s.HandlerKind = map[string]string{prog.Unary: prog.Server, prog.Client: prog.Bidi}[s.Cfg.Kind]
			s.Handler.Steps = append(s.Handler.Steps, prog.HStep{Op: "recv", N: -1})
			for k := 0; k < rapid.IntRange(2, 3).Draw(t, "extraResponses"); k++ {
				s.Handler.Steps = append(s.Handler.Steps, prog.HStep{Op: "send", Msg: msg(30+k, 10)})
			}
		}
	}
	return c
}

func handlerSent(hp *prog.HandlerProg) []prog.Msg {
	var out []prog.Msg
	for _, st := range hp.Steps {
		if st.Op == "send" && st.Msg != nil {
			out = append(out, *st.Msg)
		}
	}
	return out
}

func check(tt *testing.T, c Case) (pbt.Info, error) {
	var info pbt.Info
	s := c.S
	info.Label("family:" + c.Family)
	info.Label("proto:" + s.Cfg.Protocol)
	info.Label("transport:" + s.Transport)
	if len(s.Delays) > 0 {
		info.Label("with-delays")
	}
	info.NonTrivial = c.Family == "early-exit" || c.Family == "cancel" || c.Family == "oversize" || len(s.Delays) > 0 || s.ReqBodyDelayNS > 0
	if s.ReqBodyDelayNS > 0 {
		info.Label("slow-request-body-reads")
	}
	tr, err := sched.Run(tt, s)
	where := fmt.Sprintf("%s %s/%s over %s, handler %+v, client ops %+v msgs %d, delays %v", c.Family, s.Cfg.Protocol, s.Cfg.Kind, s.Transport, s.Handler, s.Client.Ops, len(s.Client.Msgs), s.Delays)
	if err != nil {
		return info, fmt.Errorf("%s: not every call returned / something stayed blocked: %v", where, firstLines(err.Error(), 40))
	}
	if len(tr.Leftover) > 0 {
		return info, fmt.Errorf("%s: %d goroutine(s) started by the library remain after the call ended:\n%s", where, len(tr.Leftover), firstLines(tr.Leftover[0], 30))
	}
	if tr.Elapsed > time.Hour {
		return info, fmt.Errorf("%s: the call took %v of virtual time", where, tr.Elapsed)
	}
	res := tr.Res
	closedResp := false
	for _, op := range s.Client.Ops {
		if op.Op == "closeresp" {
			closedResp = true
		}
	}
	if (closedResp || s.Cfg.Kind != prog.Bidi) && tr.BodyCloses < tr.Responses {
		return info, fmt.Errorf("%s: the HTTP response body was never closed", where)
	}
	// sticky Receive errors
	sawErr := false
	for _, o := range res.Ops {
		if o.Op != "recv" {
			continue
		}
		if sawErr && o.Err == nil {
			return info, fmt.Errorf("%s: Receive returned a message after an earlier Receive had reported an error", where)
		}
		if o.Err != nil {
			sawErr = true
		}
	}
	if c.Family == "cancel" {
		return info, nil // codes after cancellation are C15's business
	}
	if n := len(s.Client.Msgs); n > 0 && s.Client.Msgs[n-1].Bad {
		info.Label("request-message-cannot-be-marshalled")
		info.NonTrivial = true
		if res.CleanEnd && res.Err == nil && len(res.SendErrs) == 0 {
			return info, fmt.Errorf("%s: the request message could not be marshalled, yet no operation of the call failed", where)
		}
		return info, nil // it ended, closed the body and left nothing behind (checked above)
	}
	if s.HandlerKind != "" {
		// the call cannot succeed (several messages for a single-response
		// call); what it must still do is end, close the body and leave nothing behind
		info.Label("peer-answers-with-a-stream")
		info.NonTrivial = true
		if res.CleanEnd && res.Err == nil && len(handlerSent(&s.Handler)) >= 2 {
			return info, fmt.Errorf("%s: the peer sent %d messages in answer to a single-response call, yet the call succeeded", where, len(handlerSent(&s.Handler)))
		}
		return info, nil
	}
	if c.Family == "oversize" {
		// the Receive that meets the oversized message fails, and so does every later one
		nrecv, firstErr := 0, -1
		for _, o := range res.Ops {
			if o.Op != "recv" {
				continue
			}
			if o.Err != nil && firstErr < 0 {
				firstErr = nrecv
			}
			nrecv++
		}
		before := 0
		for _, st := range s.Handler.Steps {
			if st.Op == "send" {
				if st.Msg.TLen > 1000 {
					break
				}
				before++
			}
		}
		if firstErr != before {
			return info, fmt.Errorf("%s: the message at position %d exceeds the client's read limit, but the first failing Receive was #%d", where, before, firstErr)
		}
		info.Label("receive-after-read-limit-error")
		return info, nil
	}
	if len(tr.Calls) != 1 {
		return info, fmt.Errorf("%s: handler ran %d times (%v)", where, len(tr.Calls), res.Err)
	}
	hc := tr.Calls[0]
	if !hc.Returned {
		return info, fmt.Errorf("%s: handler never returned", where)
	}
	// a draining handler sees end-of-request once the client closed its side
	drains := s.Handler.Drain
	for _, st := range s.Handler.Steps {
		if st.Op == "recv" && st.N < 0 {
			drains = true
		}
	}
	if drains && (s.Cfg.Kind == prog.Bidi || s.Cfg.Kind == prog.Client) && hc.RecvEnd != "eof" {
		return info, fmt.Errorf("%s: the client closed its request side but the draining handler's receive loop ended with %q (%v)", where, hc.RecvEnd, hc.RecvErr)
	}
	// the client learns the handler's actual outcome
	sent := handlerSent(&s.Handler)
	if s.Cfg.Kind == prog.Unary || s.Cfg.Kind == prog.Client {
		sent = []prog.Msg{*s.Handler.Resp}
	}
	if s.Handler.Final != nil {
		if res.Err == nil || res.Err.Code != s.Handler.Final.Code || res.Err.Msg != s.Handler.Final.Msg {
			return info, fmt.Errorf("%s: handler returned code %d %q, the client's Receive reported %v (clean end %v)", where, s.Handler.Final.Code, s.Handler.Final.Msg, res.Err, res.CleanEnd)
		}
		if s.Cfg.Kind == prog.Unary || s.Cfg.Kind == prog.Client {
			sent = nil
		}
	} else if res.Err != nil || !res.CleanEnd {
		return info, fmt.Errorf("%s: handler returned nil, the client reported %v (clean end %v)", where, res.Err, res.CleanEnd)
	}
	if len(res.Received) != len(sent) {
		return info, fmt.Errorf("%s: handler sent %d messages, client received %d", where, len(sent), len(res.Received))
	}
	for i := range sent {
		if !res.Received[i].Equal(sent[i]) {
			return info, fmt.Errorf("%s: message %d differs", where, i)
		}
	}
	if c.Family == "early-exit" {
		// Sends after the handler finished: nil or io.EOF-wrapping, failures monotone
		failed := false
		nsend := 0
		for _, o := range res.Ops {
			if o.Op != "send" {
				continue
			}
			nsend++
			if o.Err != nil {
				if !o.Err.WrapsEOF {
					return info, fmt.Errorf("%s: Send #%d failed with %v, which does not wrap io.EOF", where, nsend, o.Err)
				}
				failed = true
			} else if failed {
				return info, fmt.Errorf("%s: Send #%d succeeded after an earlier Send had failed", where, nsend)
			}
		}
		if failed {
			info.Label("send-after-handler-finished-failed-with-eof")
		}
		// a flood of Sends after the handler has finished cannot all succeed
		// (unless the transport itself keeps swallowing the bytes)
		after, flood, startedBefore := false, 0, false
		for _, op := range s.Client.Ops {
			if op.Op == "send" && !after {
				startedBefore = true // the call was under way before the pause
			}
			if op.Op == "sleep" {
				after = true
			}
			if after && op.Op == "send" && op.Msg != nil {
				flood += op.Msg.TLen
			}
			if op.Op == "recvall" {
				break
			}
		}
		if flood >= 3<<20 && !s.LingerRequest && startedBefore {
			info.Label("flood-after-handler-finished")
			if !failed {
				return info, fmt.Errorf("%s: %d bytes were sent after the handler had finished and every Send succeeded: the sender is never told that the call is over", where, flood)
			}
		}
		// once Receive has reported the handler's outcome the stream is over:
		// every later Send must fail, with an error wrapping io.EOF
		outcomeSeen := false
		for _, o := range res.Ops {
			if o.Op == "recv" && o.Err != nil {
				outcomeSeen = true
			}
			if o.Op == "send" && outcomeSeen {
				if o.Err == nil || !o.Err.WrapsEOF {
					return info, fmt.Errorf("%s: a Send issued after Receive had reported the handler's outcome returned %v; want an error wrapping io.EOF", where, o.Err)
				}
			}
		}
	}
	return info, nil
}

func firstLines(s string, n int) string {
	lines := strings.Split(s, "\n")
	if len(lines) > n {
		lines = lines[:n]
	}
	return strings.Join(lines, "\n")
}

var spec = pbt.Spec[Case]{
	Prop: "C14", Name: "programs", Gen: gen, Check: check,
	Rule: "client/handler program pairs from six families (a response message above the client's read limit followed by further messages and further Receives; closing programs; ping-pong; handler exits early while the client keeps sending up to 6×200 KB; cancel followed by arbitrary further operations; typed unary/client/server calls) × 3 protocols × {in-memory transport, real net/http h2c and HTTP/1.1 over net.Pipe} with 0..2 virtual delays (1 ms..2 s) at the library's named yield points and optionally delayed request-body reads by the transport, all inside a synctest bubble; oracle: no deadlock (every API call returned), no goroutine with a library frame left after a 30 s virtual settle period, response body closed, draining handler sees io.EOF, later Sends fail only with io.EOF-wrapping errors and monotonically, the next Receive reports the handler's actual outcome, Receive errors are sticky; non-trivial = early-exit or cancel family, or ≥1 injected delay",
}

func TestPrograms(t *testing.T) { pbt.Run(t, spec) }

// TestDelayEnumeration: for fixed representative programs, EVERY single yield
// point and EVERY pair of points gets a delay.
func TestDelayEnumeration(t *testing.T) {
	defer pbt.Flush()
	var bases []Case
	for _, protocol := range prog.Protocols {
		for _, transport := range []string{"mem", "h2c"} {
			pp := Case{Family: "pingpong", S: sched.Scenario{Cfg: prog.Config{Protocol: protocol, Codec: "proto", Kind: prog.Bidi}, Transport: transport}}
			for r := 0; r < 2; r++ {
				pp.S.Handler.Steps = append(pp.S.Handler.Steps, prog.HStep{Op: "recv", N: 1}, prog.HStep{Op: "send", Msg: msg(r, 10)})
				pp.S.Client.Ops = append(pp.S.Client.Ops, prog.COp{Op: "send", Msg: msg(r, 10)}, prog.COp{Op: "recv"})
			}
			pp.S.Handler.Drain = true
			pp.S.Client.Ops = append(pp.S.Client.Ops, prog.COp{Op: "closereq"}, prog.COp{Op: "recvall"}, prog.COp{Op: "closeresp"})
			ee := Case{Family: "early-exit", S: sched.Scenario{Cfg: prog.Config{Protocol: protocol, Codec: "proto", Kind: prog.Bidi}, Transport: transport}}
			ee.S.Handler.Steps = []prog.HStep{{Op: "recv", N: 1}, {Op: "send", Msg: msg(0, 10)}}
			ee.S.Handler.Final = &prog.ErrSpec{Code: 9, Msg: "early"}
			ee.S.Client.Ops = []prog.COp{{Op: "send", Msg: msg(0, 10)}, {Op: "sleep", D: 5e9}, {Op: "send", Msg: msg(1, 3000)}, {Op: "send", Msg: msg(2, 3000)}, {Op: "closereq"}, {Op: "recvall"}, {Op: "recv"}, {Op: "closeresp"}}
			bases = append(bases, pp, ee)
		}
	}
	pairs := pbt.Thorough()
	total := 0
	var samples []any
	run := func(c Case) {
		total++
		if _, err := check(t, c); err != nil {
			path := pbt.SaveReplay(spec, c, err)
			fmt.Printf("VIOLATION property=C14 replay=%s\n", path)
			t.Fatalf("C14/delay-enumeration violated: %v", err)
		}
		if len(samples) < 3 && total%17 == 3 {
			samples = append(samples, c)
		}
	}
	for _, b := range bases {
		for i, p := range sched.Points {
			for _, d := range []int64{1e6, 2e9} {
				c := b
				c.S.Delays = []sched.Delay{{Point: p, NS: d}}
				run(c)
			}
			if !pairs {
				continue
			}
			for _, q := range sched.Points[i+1:] {
				c := b
				c.S.Delays = []sched.Delay{{Point: p, NS: 50e6}, {Point: q, NS: 2e9}}
				run(c)
				c.S.Delays = []sched.Delay{{Point: p, NS: 2e9}, {Point: q, NS: 50e6}}
				run(c)
			}
		}
	}
	what := "every single yield point × {1 ms, 2 s}"
	if pairs {
		what += " and every pair of points (both orders of magnitude)"
	}
	pbt.RecordBulk("C14", "delay-enumeration", "fixed ping-pong and early-exit programs × 3 protocols × {mem, h2c}: "+what+"; same oracle as [programs]; every case is non-trivial", total, total, true, samples...)
}

func TestReplay(t *testing.T) { pbt.ReplayMain(t, pbt.Replayer(spec)) }
