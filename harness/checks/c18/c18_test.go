package c18

import (
	"bytes"
	"context"
	"encoding/base64"
	"errors"
	"fmt"
	"net/http"
	"os"
	"strconv"
	"strings"
	"testing"
	"unicode/utf8"

	connect "github.com/bufbuild/connect-go"
	pingv1 "github.com/bufbuild/connect-go/internal/gen/connect/ping/v1"
	"github.com/bufbuild/connect-go/verif/memnet"
	"github.com/bufbuild/connect-go/verif/pbt"
	"github.com/bufbuild/connect-go/verif/prog"
	"github.com/bufbuild/connect-go/verif/refwire"
	"pgregory.net/rapid"
)

func shard() (int, int) {
	i, _ := strconv.Atoi(os.Getenv("VERIF_SHARD_INDEX"))
	n, _ := strconv.Atoi(os.Getenv("VERIF_SHARDS"))
	if n <= 0 {
		n = 1
	}
	return i, n
}

type CodeCase struct {
	Code uint32 `json:"code"`
}

func checkCode(c uint32) error {
	code := connect.Code(c)
	txt, err := code.MarshalText()
	if err != nil {
		return fmt.Errorf("Code(%d).MarshalText failed: %v", c, err)
	}
	var back connect.Code
	if err := back.UnmarshalText(txt); err != nil {
		return fmt.Errorf("UnmarshalText(%q) (text form of code %d) failed: %v", txt, c, err)
	}
	if back != code {
		return fmt.Errorf("code %d → %q → %d does not round-trip", c, txt, uint32(back))
	}
	if string(txt) != code.String() {
		return fmt.Errorf("code %d: MarshalText %q != String %q", c, txt, code.String())
	}
	return nil
}

var specCode = pbt.Spec[CodeCase]{
	Prop: "C18", Name: "code-text-random",
	Gen: func(t *rapid.T) CodeCase {
		switch rapid.IntRange(0, 3).Draw(t, "class") {
		case 0:
			return CodeCase{Code: uint32(rapid.IntRange(0, 40).Draw(t, "small"))}
		case 1:
			k := rapid.IntRange(0, 32).Draw(t, "k")
			d := rapid.IntRange(-3, 3).Draw(t, "d")
			return CodeCase{Code: uint32(int64(1)<<k + int64(d))}
		default:
			return CodeCase{Code: rapid.Uint32().Draw(t, "code")}
		}
	},
	Check: func(tt *testing.T, c CodeCase) (pbt.Info, error) {
		return pbt.Info{NonTrivial: c.Code == 0 || c.Code > 16}, checkCode(c.Code)
	},
	Rule: "random 32-bit code values (small, 2^k±3, uniform) through MarshalText/UnmarshalText; non-trivial = not one of the 16 named codes",
}

func TestCodeTextRandom(t *testing.T) { pbt.Run(t, specCode) }

// TestCodeTextEnum enumerates code values: quick = 0..2^20, every 2^k±2 and
// the top 2^16; thorough = all 2^32 values (sharded).
func TestCodeTextEnum(t *testing.T) {
	defer pbt.Flush()
	idx, n := shard()
	total, nt := 0, 0
	do := func(c uint32) {
		total++
		if c == 0 || c > 16 {
			nt++
		}
		if err := checkCode(c); err != nil {
			path := pbt.SaveReplay(specCode, CodeCase{Code: c}, err)
			fmt.Printf("VIOLATION property=C18 replay=%s\n", path)
			t.Fatalf("C18/code-text violated: %v", err)
		}
	}
	if pbt.Thorough() {
		lo := uint64(idx) * (1 << 32) / uint64(n)
		hi := uint64(idx+1) * (1 << 32) / uint64(n)
		for c := lo; c < hi; c++ {
			do(uint32(c))
		}
		pbt.RecordBulk("C18", "code-text-enum", "ALL 2^32 code values through MarshalText/UnmarshalText (sharded); non-trivial = not one of the 16 named codes", total, nt, true, map[string]any{"code": 4294967295, "text": connect.Code(4294967295).String()}, map[string]any{"code": 0, "text": connect.Code(0).String()})
		return
	}
	if idx != 0 {
		return
	}
	for c := uint32(0); c < 1<<20; c++ {
		do(c)
	}
	for k := 20; k <= 32; k++ {
		for d := int64(-2); d <= 2; d++ {
			do(uint32(int64(1)<<k + d))
		}
	}
	for c := uint64(1<<32 - 1<<16); c < 1<<32; c++ {
		do(uint32(c))
	}
	pbt.RecordBulk("C18", "code-text-enum", "code values 0..2^20, every 2^k±2 and the top 2^16 through MarshalText/UnmarshalText (the thorough tier enumerates all 2^32); non-trivial = not one of the 16 named codes", total, nt, false, map[string]any{"code": 4294967295, "text": connect.Code(4294967295).String()})
}

// ---- rejection of text that is neither a name nor code_<number> ----

type TextCase struct {
	Text string `json:"text"`
}

func isDefinedForm(s string) bool {
	if _, ok := refwire.CodeFromName(s); ok {
		return true
	}
	// code_<number>: the prefix followed by decimal digits and nothing else
	// (which digit strings are accepted — leading zeros, values beyond 32
	// bits — is not fixed by the property)
	rest, ok := strings.CutPrefix(s, "code_")
	if ok && len(rest) > 1 && (rest[0] == '-' || rest[0] == '+') {
		rest = rest[1:] // a signed number is still a number: grey as well
	}
	if !ok || rest == "" {
		return false
	}
	for _, c := range []byte(rest) {
		if c < '0' || c > '9' {
			return false
		}
	}
	return true
}

var rejectSeeds = []string{"code_", "code_ 5", "code_5 ", "code_-1", "code_+1", "code_1e3", "code_0x10", "code_17abc", "code_٣", "", " ", "ok", "OK", "Canceled", "CANCELED", "cancelled", "canceled ", " canceled", "canceled\n", "code", "Code_5", "CODE_5", "code-5", "code5", "5", "0", "unknown\x00", "not-found", "notfound", "invalid argument", "unauthenticated1", "unknown,unknown", "ünknown", "\xff"}

var specReject = pbt.Spec[TextCase]{
	Prop: "C18", Name: "code-text-reject",
	Gen: func(t *rapid.T) TextCase {
		switch rapid.IntRange(0, 4).Draw(t, "class") {
		case 4:
			// almost code_<number>
			digits := rapid.StringMatching(`[0-9]{0,10}`).Draw(t, "digits")
			junk := rapid.SampledFrom([]string{"abc", " ", "\n", "_", "x", ".5", "e3", "-", "+", "\x00", ",1"}).Draw(t, "junk")
			if rapid.Bool().Draw(t, "junkFirst") {
				return TextCase{Text: "code_" + junk + digits}
			}
			return TextCase{Text: "code_" + digits + junk}
		case 0:
			return TextCase{Text: rapid.SampledFrom(rejectSeeds).Draw(t, "seed")}
		case 1:
			// mutate a valid name
			name := refwire.CodeNames[rapid.IntRange(1, 16).Draw(t, "name")]
			b := []byte(name)
			switch rapid.IntRange(0, 3).Draw(t, "mut") {
			case 0:
				i := rapid.IntRange(0, len(b)-1).Draw(t, "i")
				b[i] = byte(rapid.IntRange(0, 255).Draw(t, "byte"))
			case 1:
				b = b[:rapid.IntRange(0, len(b)-1).Draw(t, "cut")]
			case 2:
				b = append(b, byte(rapid.IntRange(0, 255).Draw(t, "byte")))
			default:
				b = bytes.ToUpper(b[:1+rapid.IntRange(0, len(b)-1).Draw(t, "up")])
				b = append(b, name[len(b):]...)
			}
			return TextCase{Text: string(b)}
		default:
			return TextCase{Text: string(rapid.SliceOfN(rapid.Byte(), 0, 24).Draw(t, "bytes"))}
		}
	},
	Check: func(tt *testing.T, c TextCase) (pbt.Info, error) {
		info := pbt.Info{}
		var code connect.Code = 77
		err := code.UnmarshalText([]byte(c.Text))
		if isDefinedForm(c.Text) {
			info.Label("defined-form")
			return info, nil // names are accepted; code_<…> spellings are a grey zone
		}
		info.NonTrivial = true
		if err == nil {
			return info, fmt.Errorf("UnmarshalText(%q) accepted text that is neither a defined name nor code_<number> (→ %d)", c.Text, uint32(code))
		}
		return info, nil
	},
	Rule: "strings that are neither one of the 16 names nor code_ followed by decimal digits only (hand-picked near misses, code_<digits> with junk before or after the digits, single-byte mutations/truncations/case changes of valid names, random bytes) must be rejected by Code.UnmarshalText; non-trivial = not a defined form",
}

func TestCodeTextReject(t *testing.T) { pbt.Run(t, specReject) }

// ---- percent-encoding, black box ----

type MsgCase struct {
	Msg []byte `json:"msg"`
}

// encodeViaHandler makes a gRPC handler fail with msg and returns the
// Grpc-Message trailer it wrote.
func encodeViaHandler(msg string) (string, *memnet.Recorded) {
	h := connect.NewUnaryHandler("/verif.v1.Svc/Unary", func(ctx context.Context, r *connect.Request[pingv1.PingRequest]) (*connect.Response[pingv1.PingResponse], error) {
		return nil, connect.NewError(connect.CodeAborted, errors.New(msg))
	})
	req := refwire.BuildRequest(&refwire.ReqSpec{Protocol: "grpc", Kind: "unary", Codec: "proto", Msgs: [][]byte{nil}})
	rec := memnet.Serve(h, "POST", "/verif.v1.Svc/Unary", req.Header, bytes.NewReader(req.Body), memnet.ServeOpts{})
	v := rec.Trailer.Get("Grpc-Message")
	return v, rec
}

// decodeViaClient feeds a Grpc-Message header value to a gRPC client and
// returns the message of the resulting error.
func decodeViaClient(encoded string) (string, *prog.ErrView) {
	sc := memnet.NewScript(200, http.Header{"Content-Type": {"application/grpc+proto"}}, nil, http.Header{"Grpc-Status": {"10"}, "Grpc-Message": {encoded}})
	res := prog.RunClient(context.Background(), sc, prog.Config{Protocol: "grpc", Codec: "proto", Kind: prog.Unary}, &prog.ClientProg{Msgs: []prog.Msg{{}}}, nil)
	sc.WaitRequest()
	if res.Err == nil {
		return "", nil
	}
	return res.Err.Msg, res.Err
}

func checkDecodeAny(in string) error {
	_, ev := decodeViaClient(in)
	if ev == nil {
		return fmt.Errorf("client call with Grpc-Status 10 and Grpc-Message %q succeeded", in)
	}
	if !ev.IsConnect || ev.Code != 10 {
		return fmt.Errorf("client call with Grpc-Message %q: error %v, want code 10", in, ev)
	}
	return nil
}

func checkMsgBlackBox(msg []byte) error {
	// decoder: the reference encoding (both hex cases) of ANY byte string must decode to it
	for _, lower := range []bool{false, true} {
		enc := refwire.PercentEncode(string(msg), lower)
		got, ev := decodeViaClient(enc)
		if ev == nil || got != string(msg) {
			return fmt.Errorf("decoder: Grpc-Message %q (reference encoding of %x) decoded to %x (%v)", enc, msg, got, ev)
		}
	}
	// encoder (valid UTF-8 only: the binary status message must be a proto string)
	if utf8.Valid(msg) {
		enc, rec := encodeViaHandler(string(msg))
		if !refwire.IsHeaderSafe(enc) {
			return fmt.Errorf("encoder: Grpc-Message %q for message %x contains bytes outside printable ASCII", enc, msg)
		}
		dec, ok := refwire.PercentDecode(enc)
		if !ok || dec != string(msg) {
			return fmt.Errorf("encoder: Grpc-Message %q does not reference-decode to %x (got %x, well-formed=%v); status %v", enc, msg, dec, ok, rec.Trailer)
		}
		if got, _ := decodeViaClient(enc); got != string(msg) {
			return fmt.Errorf("round trip: %x → %q → %x", msg, enc, got)
		}
	}
	return nil
}

func msgNonTrivial(b []byte) bool {
	for _, c := range b {
		if c < 0x20 || c > 0x7e || c == '%' {
			return true
		}
	}
	return false
}

var specMsg = pbt.Spec[MsgCase]{
	Prop: "C18", Name: "percent-blackbox",
	Gen: func(t *rapid.T) MsgCase {
		switch rapid.IntRange(0, 3).Draw(t, "class") {
		case 0:
			return MsgCase{Msg: rapid.SliceOfN(rapid.Byte(), 0, 8).Draw(t, "short")}
		case 1:
			return MsgCase{Msg: []byte(rapid.String().Draw(t, "utf8"))}
		case 2:
			alphabet := []byte("%%%09afAFgG \x00\xff\x7f~é")
			return MsgCase{Msg: rapid.SliceOfN(rapid.SampledFrom(alphabet), 0, 16).Draw(t, "pct")}
		default:
			return MsgCase{Msg: rapid.SliceOfN(rapid.Byte(), 0, 4096).Draw(t, "long")}
		}
	},
	Check: func(tt *testing.T, c MsgCase) (pbt.Info, error) {
		return pbt.Info{NonTrivial: msgNonTrivial(c.Msg)}, checkMsgBlackBox(c.Msg)
	},
	Rule: "byte strings (short over the full alphabet, valid UTF-8, '%'/hex-heavy, long up to 4 KiB) through the public API only: a gRPC handler failing with the message (encoder, observed in the Grpc-Message trailer: printable ASCII, reference-decodes to the message) and a gRPC client given a Grpc-Message header (decoder: the reference encoding in upper- and lower-case hex of ANY byte string decodes to it); non-trivial = at least one byte that needs escaping",
}

func TestPercentBlackBox(t *testing.T) { pbt.Run(t, specMsg) }

type DecCase struct {
	In string `json:"in"`
}

var specDec = pbt.Spec[DecCase]{
	Prop: "C18", Name: "percent-decoder-total",
	Gen: func(t *rapid.T) DecCase {
		alphabet := []byte("%%%%0123456789abcdefABCDEFgGxyz \x7f\x80\xff~")
		switch rapid.IntRange(0, 2).Draw(t, "mode") {
		case 0:
			return DecCase{In: string(rapid.SliceOfN(rapid.Byte(), 0, 64).Draw(t, "bytes"))}
		case 1:
			// token soup: complete escapes, truncated escapes and plain bytes
			toks := []string{"%", "%4", "%41", "%zz", "%c3", "%A9", "a", " ", "\xc3\xa9", "%%", "4", "G"}
			return DecCase{In: strings.Join(rapid.SliceOfN(rapid.SampledFrom(toks), 0, 8).Draw(t, "tokens"), "")}
		}
		return DecCase{In: string(rapid.SliceOfN(rapid.SampledFrom(alphabet), 0, 12).Draw(t, "pct"))}
	},
	Check: func(tt *testing.T, c DecCase) (pbt.Info, error) {
		return pbt.Info{NonTrivial: strings.Contains(c.In, "%")}, checkDecodeAny(c.In)
	},
	Rule: "arbitrary strings (random bytes; strings over {'%', hex digits, non-hex, high bytes}) as Grpc-Message value: the client call must return a coded error with the status' code, never panic; non-trivial = contains '%'",
}

func TestPercentDecoderTotal(t *testing.T) { pbt.Run(t, specDec) }

// TestPercentEnum enumerates short byte strings through the black-box
// decoder path (all of length ≤ 2 quick; all of length ≤ 3 thorough, sharded).
func TestPercentEnum(t *testing.T) {
	defer pbt.Flush()
	idx, n := shard()
	total, nt := 0, 0
	do := func(b []byte) {
		total++
		if msgNonTrivial(b) {
			nt++
		}
		enc := refwire.PercentEncode(string(b), total%2 == 0)
		got, ev := decodeViaClient(enc)
		var err error
		if ev == nil || got != string(b) {
			err = fmt.Errorf("decoder: Grpc-Message %q (reference encoding of %x) decoded to %x (%v)", enc, b, got, ev)
		}
		if err == nil {
			// the raw string itself as decoder input must be handled
			err = checkDecodeAny(string(b))
		}
		if err != nil {
			path := pbt.SaveReplay(specMsg, MsgCase{Msg: b}, err)
			fmt.Printf("VIOLATION property=C18 replay=%s\n", path)
			t.Fatalf("C18/percent-enum violated: %v", err)
		}
	}
	if idx == 0 {
		do(nil)
		for a := 0; a < 256; a++ {
			do([]byte{byte(a)})
		}
	}
	for a := idx; a < 256; a += n {
		for b := 0; b < 256; b++ {
			do([]byte{byte(a), byte(b)})
			if pbt.Thorough() {
				for c := 0; c < 256; c++ {
					do([]byte{byte(a), byte(b), byte(c)})
				}
			}
		}
	}
	lim := 2
	if pbt.Thorough() {
		lim = 3
	}
	pbt.RecordBulk("C18", "percent-enum", fmt.Sprintf("ALL byte strings of length ≤ %d: reference-encoded (alternating hex case) then decoded by a gRPC client, and fed raw as Grpc-Message; non-trivial = needs escaping", lim), total, nt, true, map[string]any{"bytes_hex": "25ff", "encoded": refwire.PercentEncode("%\xff", false)})
}

// ---- every code maps to a 4xx/5xx status (black box, sampled) ----

func statusViaHandler(code uint32) int {
	h := connect.NewUnaryHandler("/verif.v1.Svc/Unary", func(ctx context.Context, r *connect.Request[pingv1.PingRequest]) (*connect.Response[pingv1.PingResponse], error) {
		return nil, connect.NewError(connect.Code(code), errors.New("x"))
	})
	rec := memnet.Serve(h, "POST", "/verif.v1.Svc/Unary", http.Header{"Content-Type": {"application/proto"}}, bytes.NewReader(nil), memnet.ServeOpts{})
	return rec.Status
}

var specStatus = pbt.Spec[CodeCase]{
	Prop: "C18", Name: "code-http-status-blackbox",
	Gen: specCode.Gen,
	Check: func(tt *testing.T, c CodeCase) (pbt.Info, error) {
		info := pbt.Info{NonTrivial: c.Code == 0 || c.Code > 16}
		if c.Code == 0 {
			return info, nil // a handler returning an error with the OK code is outside the property
		}
		st := statusViaHandler(c.Code)
		if st < 400 || st > 599 {
			return info, fmt.Errorf("unary Connect handler failing with code %d answered HTTP %d (must be 4xx/5xx)", c.Code, st)
		}
		return info, nil
	},
	Rule: "random code values (small, 2^k±3, uniform): a unary Connect handler failing with the code must answer 4xx/5xx; non-trivial = undefined code",
}

func TestCodeStatusBlackBox(t *testing.T) { pbt.Run(t, specStatus) }

// ---- binary headers ----

type BinCase struct {
	Data []byte `json:"data"`
}

var specBin = pbt.Spec[BinCase]{
	Prop: "C18", Name: "binary-header",
	Gen: func(t *rapid.T) BinCase {
		switch rapid.IntRange(0, 3).Draw(t, "class") {
		case 0:
			return BinCase{Data: rapid.SliceOfN(rapid.Byte(), 0, 64).Draw(t, "data")}
		case 1:
			// every length up to 2 KiB is equally likely
			return BinCase{Data: expand(rapid.IntRange(0, 2048).Draw(t, "len"), rapid.Uint32().Draw(t, "fill"))}
		case 2:
			// around powers of two up to 64 KiB
			n := (1 << rapid.IntRange(0, 16).Draw(t, "pow")) + rapid.IntRange(-3, 3).Draw(t, "delta")
			return BinCase{Data: expand(max(n, 0), rapid.Uint32().Draw(t, "fill"))}
		}
		return BinCase{Data: rapid.SliceOfN(rapid.Byte(), 0, 600).Draw(t, "mid")}
	},
	Check: checkBin,
	Rule:  "byte strings of every length: random ≤64 B and ≤600 B, uniformly chosen lengths 0..2048 and lengths within ±3 of every power of two up to 64 KiB with pseudo-random content: EncodeBinaryHeader is header-safe, DecodeBinaryHeader inverts it for padded and unpadded spellings and never panics on arbitrary input; non-trivial = length not a multiple of 3",
}

// expand returns n bytes of deterministic pseudo-random content.
func expand(n int, fill uint32) []byte {
	out := make([]byte, n)
	x := fill | 1
	for i := range out {
		x = x*1664525 + 1013904223
		out[i] = byte(x >> 24)
	}
	return out
}

func checkBin(tt *testing.T, c BinCase) (pbt.Info, error) {
	{
		info := pbt.Info{NonTrivial: len(c.Data)%3 != 0}
		enc := connect.EncodeBinaryHeader(c.Data)
		if !refwire.IsHeaderSafe(enc) {
			return info, fmt.Errorf("EncodeBinaryHeader(%d bytes %x…) = %.80q is not header-safe", len(c.Data), head(c.Data), enc)
		}
		for _, in := range []string{enc, base64.StdEncoding.EncodeToString(c.Data)} {
			dec, err := connect.DecodeBinaryHeader(in)
			if err != nil || !bytes.Equal(dec, c.Data) {
				return info, fmt.Errorf("DecodeBinaryHeader(%.80q… of a %d-byte value) = %x…, %v; want %x…", in, len(c.Data), head(dec), err, head(c.Data))
			}
		}
		// decoder is total on arbitrary input
		_, _ = connect.DecodeBinaryHeader(string(c.Data))
		return info, nil
	}
}

func TestBinaryHeader(t *testing.T) { pbt.Run(t, specBin) }

// TestBinaryHeaderSweep enumerates every length 0..N (two fills each).
func TestBinaryHeaderSweep(t *testing.T) {
	defer pbt.Flush()
	maxLen := 4096
	if pbt.Thorough() {
		maxLen = 70000
	}
	total, nt := 0, 0
	for n := 0; n <= maxLen; n++ {
		for _, fill := range []uint32{0xffffffff, uint32(n)*2654435761 + 12345} {
			c := BinCase{Data: expand(n, fill)}
			if fill == 0xffffffff {
				for i := range c.Data {
					c.Data[i] = 0xff
				}
			}
			info, err := func() (info pbt.Info, err error) {
				defer func() {
					if r := recover(); r != nil {
						err = fmt.Errorf("panic for a %d-byte value: %v", n, r)
					}
				}()
				return checkBin(t, c)
			}()
			total++
			if info.NonTrivial {
				nt++
			}
			if err != nil {
				path := pbt.SaveReplay(specBin, c, err)
				fmt.Printf("VIOLATION property=C18 replay=%s\n", path)
				t.Fatalf("C18/binary-header violated: %v", err)
			}
		}
	}
	pbt.RecordBulk("C18", "binary-header-sweep", fmt.Sprintf("EVERY length 0..%d × {all 0xFF, pseudo-random} through the binary-header round-trip oracle; non-trivial = length not a multiple of 3", maxLen), total, nt, true, BinCase{Data: expand(5, 7)})
}

func TestReplay(t *testing.T) {
	pbt.ReplayMain(t, pbt.Replayer(specCode), pbt.Replayer(specReject), pbt.Replayer(specMsg), pbt.Replayer(specDec), pbt.Replayer(specStatus), pbt.Replayer(specBin))
}

func head(b []byte) []byte {
	if len(b) > 24 {
		return b[:24]
	}
	return b
}
