package c02

import (
	"context"
	"fmt"
	"net/http"
	"strings"
	"testing"
	"unicode/utf8"

	connect "github.com/bufbuild/connect-go"
	"github.com/bufbuild/connect-go/verif/harn"
	"github.com/bufbuild/connect-go/verif/memnet"
	"github.com/bufbuild/connect-go/verif/pbt"
	"github.com/bufbuild/connect-go/verif/prog"
	"github.com/bufbuild/connect-go/verif/refwire"
	"google.golang.org/protobuf/proto"
	"pgregory.net/rapid"
)

type Case struct {
	Cfg           prog.Config  `json:"cfg"`
	Transport     string       `json:"transport"`
	Err           prog.ErrSpec `json:"err"`
	K             int          `json:"k"` // messages sent before the error (server / bidi)
	ByInterceptor bool         `json:"by_interceptor"`
	Trailer       []prog.KV    `json:"trailer,omitempty"` // trailers set on the stream before failing (server / bidi); may share keys with the error's metadata
}

var msgPieces = []string{
	"", "a", "boom", "resource exhausted", " ", "  ", "\t", "\x00", "\x01\x1f", "\x7f", "%", "%41", "%zz", "%%", "\r\n", "\n", "é", "ü", "世界", "🙂", " ",
	"\"quoted\"", "\\", "<html>", "&amp;", ":", ",", ";", "=",
}

func msgGen(t *rapid.T) string {
	switch rapid.IntRange(0, 9).Draw(t, "msgclass") {
	case 0:
		return ""
	case 1:
		return rapid.SampledFrom(msgPieces).Draw(t, "piece")
	case 2:
		// long
		n := rapid.IntRange(200, 8192).Draw(t, "longlen")
		unit := rapid.SampledFrom([]string{"x", "é%", "世", "ab cd "}).Draw(t, "unit")
		return strings.Repeat(unit, n/len(unit)+1)[:n/len(unit)*len(unit)]
	case 3:
		// arbitrary valid UTF-8 (rapid strings are valid UTF-8)
		return rapid.String().Draw(t, "utf8")
	default:
		var b strings.Builder
		n := rapid.IntRange(1, 6).Draw(t, "npieces")
		for i := 0; i < n; i++ {
			b.WriteString(rapid.SampledFrom(msgPieces).Draw(t, "piece"))
		}
		return b.String()
	}
}

func detailGen(t *rapid.T) prog.DetailSpec {
	return prog.DetailSpec{
		Kind: rapid.SampledFrom([]string{"ping", "duration", "int64", "string", "struct", "pingres"}).Draw(t, "dkind"),
		N:    rapid.Int64Range(-1000, 1<<40).Draw(t, "dn"),
		S:    rapid.SampledFrom([]string{"", "detail", "ünï", "with \"quotes\"", "a\nb", strings.Repeat("long detail ", 25)}).Draw(t, "ds"),
	}
}

func metaGen(t *rapid.T, label string) []prog.KV {
	n := rapid.IntRange(0, 4).Draw(t, label+"N")
	var kvs []prog.KV
	for i := 0; i < n; i++ {
		k := "X-Err-" + rapid.SampledFrom([]string{"A", "B", "Trace-Id", "Longer-Key-Name"}).Draw(t, label+"K")
		if rapid.IntRange(0, 3).Draw(t, label+"bin") == 0 {
			raw := rapid.SliceOfN(rapid.Byte(), 0, rapid.SampledFrom([]int{12, 12, 12, 150}).Draw(t, label+"rawMax")).Draw(t, label+"raw")
			kvs = append(kvs, prog.KV{K: k + "-Bin", V: connect.EncodeBinaryHeader(raw)})
			continue
		}
		v := rapid.StringMatching(`[!-~]([ -~]{0,14}[!-~])?`).Draw(t, label+"V")
		if rapid.IntRange(0, 5).Draw(t, label+"empty") == 0 {
			v = ""
		}
		kvs = append(kvs, prog.KV{K: k, V: v})
	}
	return kvs
}

func gen(transports []string) func(t *rapid.T) Case {
	return func(t *rapid.T) Case {
		c := Case{Transport: rapid.SampledFrom(transports).Draw(t, "transport")}
		c.Cfg = prog.Config{
			Protocol: rapid.SampledFrom(prog.Protocols).Draw(t, "protocol"),
			Codec:    rapid.SampledFrom(prog.Codecs).Draw(t, "codec"),
			Kind:     rapid.SampledFrom(prog.Kinds).Draw(t, "kind"),
		}
		if c.Transport == "h1" && c.Cfg.Kind == prog.Bidi {
			c.Cfg.Kind = prog.Server
		}
		if rapid.IntRange(0, 3).Draw(t, "compression") == 0 {
			c.Cfg.CSend = "gzip"
		}
		c.Err.Msg = msgGen(t)
		if c.Transport != "h1" && rapid.IntRange(0, 15).Draw(t, "hugeMsg") == 0 {
			// an error body well beyond any "small error" assumption
			c.Err.Msg = strings.Repeat("long error text ", rapid.SampledFrom([]int{4200, 6400, 20000}).Draw(t, "hugeLen"))
		}
		if c.Transport == "h1" && len(c.Err.Msg) > 300 {
			// net/http's HTTP/1 transport refuses trailers longer than a few KiB
			// ("suspiciously long trailer"); that limit is not connect-go's
			c.Err.Msg = c.Err.Msg[:300]
			for !utf8.ValidString(c.Err.Msg) {
				c.Err.Msg = c.Err.Msg[:len(c.Err.Msg)-1]
			}
		}
		if rapid.IntRange(0, 5).Draw(t, "plain") == 0 {
			c.Err.Plain = true
		} else {
			c.Err.Code = uint32(rapid.IntRange(1, 16).Draw(t, "code"))
			nd := rapid.IntRange(0, 4).Draw(t, "ndetails")
			if nd > 2 {
				nd -= 2
			} else if nd < 2 {
				nd = 0
			}
			for i := 0; i < nd+rapid.IntRange(0, 1).Draw(t, "moredetails"); i++ {
				c.Err.Details = append(c.Err.Details, detailGen(t))
			}
			c.Err.Meta = metaGen(t, "meta")
			// how the coded error reaches the library: as itself, wrapped,
			// joined with another error; optionally it wraps a context error
			c.Err.Wrap = rapid.SampledFrom([]string{"", "", "", "w", "join", "w2"}).Draw(t, "wrap")
			if rapid.IntRange(0, 5).Draw(t, "cause") == 0 {
				c.Err.Cause = rapid.SampledFrom([]string{"canceled", "deadline"}).Draw(t, "causeKind")
			}
		}
		if c.Cfg.Kind == prog.Server || c.Cfg.Kind == prog.Bidi {
			c.K = rapid.IntRange(0, 5).Draw(t, "k")
			if rapid.Bool().Draw(t, "withTrailers") {
				c.Trailer = metaGen(t, "trailer") // same key pool as the error metadata
			}
		}
		c.ByInterceptor = rapid.IntRange(0, 3).Draw(t, "byInterceptor") == 0
		if c.Transport == "h1" {
			// stay clear of net/http's 4 KiB HTTP/1 trailer limit (see above)
			for i := range c.Err.Details {
				if len(c.Err.Details[i].S) > 20 {
					c.Err.Details[i].S = "detail"
				}
			}
			short := func(l []prog.KV) {
				for i := range l {
					if len(l[i].V) > 24 {
						l[i].V = l[i].V[:24]
					}
				}
			}
			short(c.Err.Meta)
			short(c.Trailer)
		}
		return c
	}
}

type errInterceptor struct{ err func() error }

func (i *errInterceptor) WrapUnary(next connect.UnaryFunc) connect.UnaryFunc {
	return func(ctx context.Context, req connect.AnyRequest) (connect.AnyResponse, error) {
		if _, err := next(ctx, req); err != nil {
			return nil, err
		}
		return nil, i.err()
	}
}
func (i *errInterceptor) WrapStreamingClient(next connect.StreamingClientFunc) connect.StreamingClientFunc {
	return next
}
func (i *errInterceptor) WrapStreamingHandler(next connect.StreamingHandlerFunc) connect.StreamingHandlerFunc {
	return func(ctx context.Context, conn connect.StreamingHandlerConn) error {
		if err := next(ctx, conn); err != nil {
			return err
		}
		return i.err()
	}
}

func sentMsgs(k int) []prog.Msg {
	var out []prog.Msg
	for i := 0; i < k; i++ {
		out = append(out, prog.Msg{N: int64(i + 1), TLen: i * 7, TSeed: i})
	}
	return out
}

func check(tt *testing.T, c Case) (pbt.Info, error) {
	var info pbt.Info
	info.Label("proto:" + c.Cfg.Protocol)
	info.Label("kind:" + c.Cfg.Kind)
	info.Label("transport:" + c.Transport)
	msgs := sentMsgs(c.K)
	hp := &prog.HandlerProg{Drain: c.Cfg.Kind == prog.Client, Trailer: c.Trailer}
	for i := range msgs {
		hp.Steps = append(hp.Steps, prog.HStep{Op: "send", Msg: &msgs[i]})
	}
	opts := c.Cfg.HandlerOptions()
	if c.ByInterceptor {
		opts = append(opts, connect.WithInterceptors(&errInterceptor{err: c.Err.Build}))
		hp.Resp = &prog.Msg{N: 99}
	} else {
		e := c.Err
		hp.Final = &e
	}
	log := &prog.HLog{}
	h := prog.NewHandler(c.Cfg.Kind, hp, log, opts...)
	cp := &prog.ClientProg{Msgs: []prog.Msg{{N: 1}, {N: 2, TLen: 2000, TSeed: 1001}}}
	if c.Cfg.Kind == prog.Bidi {
		cp.Ops = []prog.COp{{Op: "send", Msg: &prog.Msg{N: 1}}, {Op: "closereq"}, {Op: "recvall"}, {Op: "closeresp"}}
	}
	var res *prog.CResult
	var ex *memnet.Exchange
	if err := harn.Over(tt, c.Transport, h, func(hc connect.HTTPClient, mem *memnet.Mem) {
		ctx, cancel := context.WithCancel(context.Background())
		defer cancel()
		res = prog.RunClient(ctx, hc, c.Cfg, cp, cancel)
		if mem != nil {
			ex = mem.Last()
		}
	}); err != nil {
		return info, err
	}
	nonASCII := false
	for i := 0; i < len(c.Err.Msg); i++ {
		if b := c.Err.Msg[i]; b < 0x21 || b > 0x7e || b == '%' {
			nonASCII = true
		}
	}
	if nonASCII {
		info.Label("message-needs-escaping")
	}
	if len(c.Err.Details) > 0 {
		info.Label("has-details")
	}
	if c.K > 0 {
		info.Label("messages-before-error")
	}
	if len(c.Err.Meta) > 0 {
		info.Label("has-meta")
	}
	if c.Err.Plain {
		info.Label("plain-error")
	}
	info.NonTrivial = nonASCII || len(c.Err.Details) > 0 || c.K > 0

	where := fmt.Sprintf("%s/%s/%s over %s", c.Cfg.Protocol, c.Cfg.Codec, c.Cfg.Kind, c.Transport)
	if res.CleanEnd {
		return info, fmt.Errorf("%s: handler error %+v was delivered as success", where, c.Err)
	}
	if res.Err == nil {
		return info, fmt.Errorf("%s: client saw no error", where)
	}
	if !res.Err.IsConnect {
		return info, fmt.Errorf("%s: client error is not a *connect.Error: %v", where, res.Err)
	}
	wantCode := c.Err.Code
	if c.Err.Plain {
		wantCode = uint32(connect.CodeUnknown)
	}
	if res.Err.Code != wantCode {
		return info, fmt.Errorf("%s: code: handler returned %d, client received %d (%s)", where, wantCode, res.Err.Code, res.Err)
	}
	if res.Err.Msg != c.Err.WireMsg() {
		return info, fmt.Errorf("%s: message: handler returned %q, client received %q", where, c.Err.WireMsg(), res.Err.Msg)
	}
	if len(res.Received) != c.K {
		return info, fmt.Errorf("%s: handler sent %d messages before the error, client received %d", where, c.K, len(res.Received))
	}
	for i := range res.Received {
		if !res.Received[i].Equal(msgs[i]) {
			return info, fmt.Errorf("%s: message %d before the error differs", where, i)
		}
	}
	if !c.Err.Plain {
		if len(res.Err.Details) != len(c.Err.Details) {
			return info, fmt.Errorf("%s: handler attached %d details, client received %d", where, len(c.Err.Details), len(res.Err.Details))
		}
		for i, d := range c.Err.Details {
			want := d.Message()
			got := res.Err.Details[i]
			if got.Type != string(want.ProtoReflect().Descriptor().FullName()) {
				return info, fmt.Errorf("%s: detail %d type: want %s, got %s", where, i, want.ProtoReflect().Descriptor().FullName(), got.Type)
			}
			m := want.ProtoReflect().New().Interface()
			if err := proto.Unmarshal(got.Value, m); err != nil {
				return info, fmt.Errorf("%s: detail %d does not unmarshal: %v", where, i, err)
			}
			if !proto.Equal(m, want) {
				return info, fmt.Errorf("%s: detail %d differs: want %v, got %v", where, i, want, m)
			}
		}
		if err := prog.SubsequenceOf(prog.KVMap(c.Err.Meta), res.Err.Meta); err != nil {
			return info, fmt.Errorf("%s: metadata: %v", where, err)
		}
	}
	if len(c.Trailer) > 0 && !c.ByInterceptor {
		info.Label("stream-trailers-set-before-error")
		// trailers the handler set on the stream are part of what it attached
		if err := prog.SubsequenceOf(prog.KVMap(c.Trailer), res.Err.Meta); err != nil {
			return info, fmt.Errorf("%s: trailers set on the stream before failing (keys may coincide with the error's metadata): %v", where, err)
		}
	}
	// raw exchange: a failed unary Connect call has a non-2xx status and the
	// reference decoder extracts the same error from the bytes
	if ex != nil {
		raw := &refwire.Response{Status: ex.Status, Header: ex.RespHeader, Body: ex.RespBody(), Trailer: ex.RespTrailer}
		if c.Cfg.Protocol == "connect" && c.Cfg.Kind == prog.Unary && raw.Status >= 200 && raw.Status < 300 {
			return info, fmt.Errorf("%s: failed unary Connect call has HTTP status %d", where, raw.Status)
		}
		dec, err := refwire.DecodeResponse(c.Cfg.Protocol, c.Cfg.Kind, refwire.ContentType(c.Cfg.Protocol, c.Cfg.Kind, c.Cfg.Codec), raw)
		if err != nil {
			return info, fmt.Errorf("%s: reference decoder rejects the error response: %v", where, err)
		}
		if dec.Status.Code != wantCode || dec.Status.Message != c.Err.WireMsg() {
			return info, fmt.Errorf("%s: reference decoder reads code %d message %q from the wire, handler returned %d %q", where, dec.Status.Code, dec.Status.Message, wantCode, c.Err.WireMsg())
		}
		if !c.Err.Plain && len(dec.Status.Details) != len(c.Err.Details) {
			return info, fmt.Errorf("%s: reference decoder reads %d details from the wire, handler attached %d", where, len(dec.Status.Details), len(c.Err.Details))
		}
	}
	_ = http.StatusOK
	return info, nil
}

const rule = "rapid-generated handler errors: code 1..16 (or a plain Go error) × message from a UTF-8 grammar (empty, blanks, NUL/C0 controls, '%', literal %-escapes, CR/LF, 2/3/4-byte runes, long, arbitrary valid UTF-8) × 0..3 Any-wrapped details of five linked message types × metadata multimap (incl. -Bin keys, empty values) × k messages already sent × raised by handler or by a handler-side interceptor × 3 protocols × 2 codecs × 4 RPC kinds; oracle: client error == handler error (code, byte-identical message, details proto.Equal in order, metadata ordered-subsequence), never success, and the independent reference decoder extracts the same error from the raw response; non-trivial = message needs escaping OR ≥1 detail OR ≥1 message before the error"

var specMem = pbt.Spec[Case]{Prop: "C02", Name: "mem", Gen: gen([]string{"mem"}), Check: check, Rule: rule}
var specNet = pbt.Spec[Case]{Prop: "C02", Name: "net", Gen: gen([]string{"h1", "h2c"}), Check: check, Rule: "same generator and oracle as [mem] carried by the real net/http stack (HTTP/1.1, h2c) over net.Pipe inside a synctest bubble (raw-exchange clause not applicable)"}

func TestMem(t *testing.T)    { pbt.Run(t, specMem) }
func TestNet(t *testing.T)    { pbt.Run(t, specNet) }
func TestReplay(t *testing.T) { pbt.ReplayMain(t, pbt.Replayer(specMem), pbt.Replayer(specNet)) }
