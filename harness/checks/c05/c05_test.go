package c05

import (
	"bytes"
	"context"
	"fmt"
	"io"
	"net/http"
	"strings"
	"sync"
	"testing"
	"testing/synctest"
	"time"

	connect "github.com/bufbuild/connect-go"
	"github.com/bufbuild/connect-go/verif/bodies"
	"github.com/bufbuild/connect-go/verif/harn"
	"github.com/bufbuild/connect-go/verif/memnet"
	"github.com/bufbuild/connect-go/verif/pbt"
	"github.com/bufbuild/connect-go/verif/prog"
	"github.com/bufbuild/connect-go/verif/refwire"
	"pgregory.net/rapid"
)

// ---------- handler conformance ----------

type HCase struct {
	Protocol  string        `json:"protocol"`
	Codec     string        `json:"codec"`
	Kind      string        `json:"kind"`
	Transport string        `json:"transport"` // serve | h1 | h2c
	ReqEnc    string        `json:"req_enc"`
	Accept    []string      `json:"accept"`
	Knobs     refwire.Knobs `json:"knobs"`
	Timeout   string        `json:"timeout"`
	ReqHeader []prog.KV     `json:"req_header"`
	ReqMsgs   []prog.Msg    `json:"req_msgs"`
	HMin      int           `json:"h_min"`
	Header    []prog.KV     `json:"header"`
	Trailer   []prog.KV     `json:"trailer"`
	Msgs      []prog.Msg    `json:"msgs"`
	Err       *prog.ErrSpec `json:"err"`
	// Bad: the k-th response message (1-based, 0 = none) cannot be marshalled
	// (invalid UTF-8 in a string field); a streaming handler returns the error
	// its Send reported.
	Bad int `json:"bad,omitempty"`
}

func kvGen(t *rapid.T, prefix, label string) []prog.KV {
	n := rapid.IntRange(0, 3).Draw(t, label+"N")
	var out []prog.KV
	for i := 0; i < n; i++ {
		k := prefix + rapid.SampledFrom([]string{"A", "B", "Trace-Id"}).Draw(t, label+"K")
		if rapid.IntRange(0, 3).Draw(t, label+"Bin") == 0 {
			out = append(out, prog.KV{K: k + "-Bin", V: connect.EncodeBinaryHeader(rapid.SliceOfN(rapid.Byte(), 0, 8).Draw(t, label+"Raw"))})
			continue
		}
		out = append(out, prog.KV{K: k, V: rapid.StringMatching(`[!-~]([ -~]{0,8}[!-~])?`).Draw(t, label+"V")})
	}
	return out
}

func msgsGen(t *rapid.T, label string, n int) []prog.Msg {
	var out []prog.Msg
	for i := 0; i < n; i++ {
		m := prog.Msg{}
		if rapid.IntRange(0, 3).Draw(t, label+"NZ") > 0 {
			m = prog.Msg{N: rapid.Int64Range(-3, 1<<40).Draw(t, label+"Num"), TLen: rapid.SampledFrom([]int{0, 1, 30, 400, 3000}).Draw(t, label+"Len"), TSeed: rapid.IntRange(0, 1999).Draw(t, label+"Seed")}
		}
		out = append(out, m)
	}
	return out
}

func errGen(t *rapid.T) *prog.ErrSpec {
	e := &prog.ErrSpec{Code: uint32(rapid.IntRange(1, 16).Draw(t, "code")), Msg: rapid.SampledFrom([]string{"", "boom", "50% of ünï", "line\r\nbreak", " padded ", "a%41"}).Draw(t, "errmsg")}
	if rapid.Bool().Draw(t, "detail") {
		e.Details = []prog.DetailSpec{{Kind: rapid.SampledFrom([]string{"ping", "duration", "string"}).Draw(t, "dkind"), N: 12, S: "dé"}}
	}
	e.Meta = kvGen(t, "X-Err-", "meta")
	// an error forwarded from an upstream gRPC call carries the upstream's
	// protocol trailers in its metadata; the handler must still emit exactly
	// one, correct, grpc-status
	if rapid.IntRange(0, 3).Draw(t, "forwarded") == 0 {
		e.Meta = append(e.Meta, prog.KV{K: "Grpc-Status", V: rapid.SampledFrom([]string{"0", "7", "14"}).Draw(t, "upstreamStatus")}, prog.KV{K: "Grpc-Message", V: "upstream%20said"})
		if rapid.Bool().Draw(t, "upstreamContentType") {
			// … and its representation headers
			e.Meta = append(e.Meta, prog.KV{K: "Content-Type", V: "application/grpc"}, prog.KV{K: "Content-Length", V: "17"})
		}
		if rapid.Bool().Draw(t, "upstreamDetails") {
			e.Meta = append(e.Meta, prog.KV{K: "Grpc-Status-Details-Bin", V: "CAcSCHVwc3RyZWFt"})
		}
	}
	return e
}

// appMeta drops the protocol's own keys from an error's metadata.
func appMeta(kvs []prog.KV) []prog.KV {
	var out []prog.KV
	for _, kv := range kvs {
		if !strings.HasPrefix(kv.K, "Grpc-") && !strings.HasPrefix(kv.K, "Content-") {
			out = append(out, kv)
		}
	}
	return out
}

func genH(transports []string) func(t *rapid.T) HCase {
	return func(t *rapid.T) HCase {
		c := HCase{
			Protocol:  rapid.SampledFrom(prog.Protocols).Draw(t, "protocol"),
			Codec:     rapid.SampledFrom(prog.Codecs).Draw(t, "codec"),
			Kind:      rapid.SampledFrom(prog.Kinds).Draw(t, "kind"),
			Transport: rapid.SampledFrom(transports).Draw(t, "transport"),
		}
		if c.Transport == "h1" && c.Kind == prog.Bidi {
			c.Kind = prog.Server
		}
		c.ReqEnc = rapid.SampledFrom([]string{"", "", "gzip", "deflate"}).Draw(t, "reqenc")
		na := rapid.IntRange(0, 3).Draw(t, "naccept")
		for i := 0; i < na; i++ {
			c.Accept = append(c.Accept, rapid.SampledFrom([]string{"gzip", "deflate", "br", "identity"}).Draw(t, "accept"))
		}
		c.Knobs.BareType = rapid.Bool().Draw(t, "baretype")
		if rapid.Bool().Draw(t, "hasTimeout") {
			if c.Protocol == "connect" {
				c.Timeout = rapid.StringMatching(`[1-9][0-9]{3,9}`).Draw(t, "timeout")
			} else {
				c.Timeout = rapid.StringMatching(`[1-9][0-9]{2,7}`).Draw(t, "timeout") + rapid.SampledFrom([]string{"H", "M", "S", "m"}).Draw(t, "unit")
			}
		}
		c.ReqHeader = kvGen(t, "X-Req-", "reqh")
		nreq := 1
		if c.Kind == prog.Client || c.Kind == prog.Bidi {
			nreq = rapid.IntRange(0, 3).Draw(t, "nreq")
		}
		c.ReqMsgs = msgsGen(t, "req", nreq)
		c.HMin = rapid.SampledFrom([]int{0, 0, 100, 1 << 30}).Draw(t, "hmin")
		c.Header = kvGen(t, "X-Res-", "resh")
		c.Trailer = kvGen(t, "X-Res-", "rest")
		nres := 1
		if c.Kind == prog.Server || c.Kind == prog.Bidi {
			nres = rapid.IntRange(0, 3).Draw(t, "nres")
		}
		c.Msgs = msgsGen(t, "res", nres)
		if nres > 0 && rapid.IntRange(0, 7).Draw(t, "badmsg") == 0 {
			c.Bad = rapid.IntRange(1, nres).Draw(t, "badAt")
		}
		if rapid.IntRange(0, 2).Draw(t, "fail") == 0 {
			c.Err = errGen(t)
		}
		return c
	}
}

// rawCall sends a raw request over the chosen carrier and returns the raw response.
func rawCall(tt *testing.T, transport string, h http.Handler, path string, req *refwire.Request) (*refwire.Response, error) {
	if transport == "serve" {
		rec := memnet.Serve(h, req.Method, path, req.Header, bytes.NewReader(req.Body), memnet.ServeOpts{})
		if rec.Panicked {
			return nil, fmt.Errorf("ServeHTTP panicked: %v", rec.PanicValue)
		}
		return &refwire.Response{Status: rec.Status, Header: rec.Header, Body: rec.Body, Trailer: rec.Trailer}, nil
	}
	var out *refwire.Response
	var cerr error
	berr := pbt.Bubble(tt, func() error {
		pn := memnet.NewPipeNet(h, transport == "h2c")
		hr, err := http.NewRequest(req.Method, "http://pipe.test"+path, bytes.NewReader(req.Body))
		if err != nil {
			return err
		}
		hr.ContentLength = -1 // streaming body, as real clients send
		hr.Header = req.Header.Clone()
		resp, err := pn.Client.Do(hr)
		if err != nil {
			cerr = err
		} else {
			body, rerr := io.ReadAll(resp.Body)
			_ = resp.Body.Close()
			if rerr != nil {
				cerr = rerr
			}
			out = &refwire.Response{Status: resp.StatusCode, Header: resp.Header, Body: body, Trailer: resp.Trailer}
		}
		pn.Close()
		synctest.Wait()
		return nil
	})
	if berr != nil {
		return nil, berr
	}
	return out, cerr
}

func checkH(tt *testing.T, c HCase) (pbt.Info, error) {
	var info pbt.Info
	info.Label("proto:" + c.Protocol)
	info.Label("kind:" + c.Kind)
	info.Label("transport:" + c.Transport)
	hp := &prog.HandlerProg{Header: c.Header, Trailer: c.Trailer, Drain: true, Final: c.Err, PropagateRecvErr: true, PropagateSendErr: true}
	streamRes := c.Kind == prog.Server || c.Kind == prog.Bidi
	if c.Bad > 0 && c.Bad <= len(c.Msgs) {
		c.Msgs = append([]prog.Msg(nil), c.Msgs...)
		c.Msgs[c.Bad-1].Bad = true
		info.Label("unmarshallable-response-message")
	} else {
		c.Bad = 0
	}
	if streamRes {
		hp.Steps = append(hp.Steps, prog.HStep{Op: "recv", N: -1})
		for i := range c.Msgs {
			hp.Steps = append(hp.Steps, prog.HStep{Op: "send", Msg: &c.Msgs[i]})
		}
	} else if len(c.Msgs) > 0 {
		hp.Resp = &c.Msgs[0]
	}
	log := &prog.HLog{}
	h := prog.NewHandler(c.Kind, hp, log, prog.Config{HComp: []string{"deflate"}, HMin: c.HMin}.HandlerOptions()...)
	var enc [][]byte
	var compress []bool
	for _, m := range c.ReqMsgs {
		enc = append(enc, refwire.EncodePing(c.Codec, m.N, m.Text()))
		compress = append(compress, c.ReqEnc != "")
	}
	req := refwire.BuildRequest(&refwire.ReqSpec{Protocol: c.Protocol, Kind: c.Kind, Codec: c.Codec, Msgs: enc, Encoding: c.ReqEnc, CompressMsg: compress, Accept: c.Accept, Timeout: c.Timeout, Header: prog.KVMap(c.ReqHeader), Knobs: c.Knobs})
	if c.Protocol == "connect" && c.Kind == prog.Unary && len(enc) == 0 {
		return info, nil
	}
	resp, err := rawCall(tt, c.Transport, h, prog.Procedure(c.Kind), req)
	where := fmt.Sprintf("%s/%s/%s handler over %s (request encoding %q, accept %v, knobs %+v)", c.Protocol, c.Codec, c.Kind, c.Transport, c.ReqEnc, c.Accept, c.Knobs)
	if err != nil {
		return info, fmt.Errorf("%s: %v", where, err)
	}
	knob := c.Knobs.BareType || len(c.Accept) > 0 || c.ReqEnc != "" || c.Timeout != ""
	info.NonTrivial = (len(c.Msgs) >= 1 && (c.Err != nil || len(c.Trailer) > 0)) || knob
	reqCT := req.Header.Get("Content-Type")
	dec, derr := refwire.DecodeResponse(c.Protocol, c.Kind, reqCT, resp)
	if derr != nil {
		return info, fmt.Errorf("%s: the strict reference decoder rejects the handler's response: %v\n status %d headers %v body %q trailers %v", where, derr, resp.Status, resp.Header, trunc(resp.Body, 200), resp.Trailer)
	}
	// the handler saw what the reference client sent
	calls := log.Snapshot()
	if len(calls) != 1 {
		return info, fmt.Errorf("%s: handler ran %d times", where, len(calls))
	}
	if len(calls[0].Received) != len(c.ReqMsgs) {
		return info, fmt.Errorf("%s: reference client sent %d messages, handler received %d", where, len(c.ReqMsgs), len(calls[0].Received))
	}
	for i, g := range calls[0].Received {
		if !g.Equal(c.ReqMsgs[i]) {
			return info, fmt.Errorf("%s: request message %d differs", where, i)
		}
	}
	if err := prog.SubsequenceOf(prog.KVMap(c.ReqHeader), calls[0].ReqHeader); err != nil {
		return info, fmt.Errorf("%s: request headers: %v", where, err)
	}
	overflow := false
	if c.Timeout != "" && c.Protocol != "connect" {
		_, overflow, _ = refwire.ParseGRPCTimeout(c.Timeout)
	}
	if c.Timeout != "" && !overflow && !calls[0].HasDeadline {
		return info, fmt.Errorf("%s: conformant timeout %q gave the handler no deadline", where, c.Timeout)
	}
	if c.Bad > 0 && (streamRes || c.Err == nil) {
		// the library could not put message c.Bad on the wire: the response must
		// still be a well-formed failure carrying exactly the earlier messages
		if dec.Status.Code == 0 {
			return info, fmt.Errorf("%s: response message %d cannot be marshalled, yet the wire says success", where, c.Bad)
		}
		want := 0
		if streamRes {
			want = c.Bad - 1
		}
		if len(dec.Messages) != want {
			return info, fmt.Errorf("%s: %d messages were sent before the one that cannot be marshalled, reference decoded %d", where, want, len(dec.Messages))
		}
		return info, nil
	}
	// the response carries exactly what the application supplied
	wantMsgs := c.Msgs
	if c.Err != nil && !streamRes {
		wantMsgs = nil
	}
	if len(dec.Messages) != len(wantMsgs) {
		return info, fmt.Errorf("%s: handler sent %d messages, reference decoded %d", where, len(wantMsgs), len(dec.Messages))
	}
	for i, m := range dec.Messages {
		n, text, err := refwire.DecodePing(c.Codec, m)
		if err != nil || n != wantMsgs[i].N || text != wantMsgs[i].Text() {
			return info, fmt.Errorf("%s: response message %d on the wire is not what the handler sent (%v)", where, i, err)
		}
		if dec.Compressed[i] && len(m) < c.HMin {
			return info, fmt.Errorf("%s: message %d (%d bytes) compressed below the minimum %d", where, i, len(m), c.HMin)
		}
	}
	if c.Err == nil {
		if dec.Status.Code != 0 {
			return info, fmt.Errorf("%s: handler succeeded, wire says code %d %q", where, dec.Status.Code, dec.Status.Message)
		}
	} else {
		if dec.Status.Code != c.Err.Code || dec.Status.Message != c.Err.Msg {
			return info, fmt.Errorf("%s: handler failed with %d %q, wire says %d %q", where, c.Err.Code, c.Err.Msg, dec.Status.Code, dec.Status.Message)
		}
		if len(dec.Status.Details) != len(c.Err.Details) {
			return info, fmt.Errorf("%s: %d details supplied, %d on the wire", where, len(c.Err.Details), len(dec.Status.Details))
		}
		for i, d := range c.Err.Details {
			want := "type.googleapis.com/" + string(d.Message().ProtoReflect().Descriptor().FullName())
			if dec.Status.Details[i].TypeURL != want {
				return info, fmt.Errorf("%s: detail %d type %q, want %q", where, i, dec.Status.Details[i].TypeURL, want)
			}
		}
	}
	union := dec.Header.Clone()
	for k, v := range dec.Trailer {
		union[k] = append(union[k], v...)
	}
	applies := streamRes || c.Err == nil // failing unary/client-stream handlers have no response object
	if applies {
		if c.Err == nil && len(wantMsgs) >= 1 {
			if err := prog.SubsequenceOf(prog.KVMap(c.Header), dec.Header); err != nil {
				return info, fmt.Errorf("%s: leading metadata: %v", where, err)
			}
			if err := prog.SubsequenceOf(prog.KVMap(c.Trailer), dec.Trailer); err != nil {
				return info, fmt.Errorf("%s: trailing metadata: %v", where, err)
			}
		} else {
			if err := prog.SubsequenceOf(prog.KVMap(c.Header), union); err != nil {
				return info, fmt.Errorf("%s: metadata (headers∪trailers): %v", where, err)
			}
			if err := prog.SubsequenceOf(prog.KVMap(c.Trailer), union); err != nil {
				return info, fmt.Errorf("%s: metadata (headers∪trailers): %v", where, err)
			}
		}
	}
	if c.Err != nil {
		if err := prog.SubsequenceOf(prog.KVMap(appMeta(c.Err.Meta)), union); err != nil {
			return info, fmt.Errorf("%s: error metadata: %v", where, err)
		}
	}
	return info, nil
}

func trunc(b []byte, n int) []byte {
	if len(b) > n {
		return b[:n]
	}
	return b
}

const ruleH = "handler programs (response headers, trailers, 0..3 messages, nil or a coded error with details/metadata; compress-min-bytes) driven by requests from the reference client with legal variations (bare application/grpc type, request compression gzip/deflate, accept lists incl. unknown names, any timeout unit/digits, custom request headers) for 3 protocols × 2 codecs × 4 kinds; the raw response is decoded by the strict reference decoder (HTTP 200 + exactly one grpc-status in the right place / exactly one final end-of-stream envelope / JSON error under the code's status, Content-Type echo, compressed flag only with a named algorithm) and must yield exactly the messages, status, details and metadata the handler supplied; non-trivial = (≥1 message and (error or trailer)) or a legal-variation knob in use"

var specH = pbt.Spec[HCase]{Prop: "C05", Name: "handler-conformance", Gen: genH([]string{"serve"}), Check: checkH, Rule: ruleH}
var specHNet = pbt.Spec[HCase]{Prop: "C05", Name: "handler-conformance-net", Gen: genH([]string{"h1", "h2c"}), Check: checkH, Rule: "as [handler-conformance], with the standard library's own http.Client and http.Server (HTTP/1.1 and h2c over net.Pipe, synctest bubble) as carrier, so that net/http really emits the trailers"}

func TestHandlerConformance(t *testing.T)    { pbt.Run(t, specH) }
func TestHandlerConformanceNet(t *testing.T) { pbt.Run(t, specHNet) }

// ---------- client conformance ----------

type CCase struct {
	Cfg       prog.Config `json:"cfg"`
	Transport string      `json:"transport"` // mem | h1 | h2c
	ReqHeader []prog.KV   `json:"req_header"`
	ReqMsgs   []prog.Msg  `json:"req_msgs"`
	Timeout   int64       `json:"timeout_ns"`
	Resp      bodies.Spec `json:"resp"`
	RespHdr   []prog.KV   `json:"resp_hdr"`
}

// refServer is the reference server: it records the raw request and answers
// with a reference-built response.
type refServer struct {
	mu   sync.Mutex
	req  *refwire.Request
	resp *refwire.Response
}

func (s *refServer) ServeHTTP(w http.ResponseWriter, r *http.Request) {
	body, _ := io.ReadAll(r.Body)
	s.mu.Lock()
	s.req = &refwire.Request{Method: r.Method, Header: r.Header.Clone(), Body: body}
	s.mu.Unlock()
	for k, v := range s.resp.Header {
		w.Header()[k] = append([]string(nil), v...)
	}
	for k, v := range s.resp.Trailer {
		for _, x := range v {
			w.Header().Add(http.TrailerPrefix+k, x)
		}
	}
	w.WriteHeader(s.resp.Status)
	if len(s.resp.Body) > 0 {
		_, _ = w.Write(s.resp.Body)
	}
	if f, ok := w.(http.Flusher); ok {
		f.Flush()
	}
}

func genC(transports []string) func(t *rapid.T) CCase {
	return func(t *rapid.T) CCase {
		c := CCase{Transport: rapid.SampledFrom(transports).Draw(t, "transport")}
		c.Resp = bodies.Gen(t, "response", []int{0, 1, 30, 400, 3000})
		if c.Transport == "h1" && c.Resp.Kind == prog.Bidi {
			c.Resp.Kind = prog.Server
		}
		if c.Resp.Encoding == "zlib" || c.Resp.Encoding == "toy" {
			c.Resp.Encoding = "deflate"
		}
		c.Resp.Knobs.TrailersOnly = rapid.Bool().Draw(t, "trailersOnly")
		// the peer may also compress what ends its response: the final
		// end-of-stream / trailer frame, or a unary Connect error document
		c.Resp.Knobs.CompressEnd = rapid.IntRange(0, 2).Draw(t, "compressEnd") == 0
		c.Cfg = prog.Config{Protocol: c.Resp.Protocol, Codec: c.Resp.Codec, Kind: c.Resp.Kind, CAccept: []string{"deflate"}}
		c.Cfg.CSend = rapid.SampledFrom([]string{"", "gzip", "deflate"}).Draw(t, "csend")
		c.Cfg.CMin = rapid.SampledFrom([]int{0, 100}).Draw(t, "cmin")
		c.ReqHeader = kvGen(t, "X-Req-", "reqh")
		c.RespHdr = kvGen(t, "X-Res-", "resh")
		n := 1
		if c.Cfg.Kind == prog.Client || c.Cfg.Kind == prog.Bidi {
			n = rapid.IntRange(0, 3).Draw(t, "nreq")
		}
		c.ReqMsgs = msgsGen(t, "req", n)
		if rapid.Bool().Draw(t, "deadline") {
			c.Timeout = rapid.Int64Range(3.6e12, 1e15).Draw(t, "timeout") // ≥ 1 h: the in-memory transport runs in real time
		}
		return c
	}
}

func checkC(tt *testing.T, c CCase) (pbt.Info, error) {
	var info pbt.Info
	info.Label("proto:" + c.Cfg.Protocol)
	info.Label("kind:" + c.Cfg.Kind)
	info.Label("transport:" + c.Transport)
	resp, err := c.Resp.Response()
	if err != nil {
		return info, nil
	}
	for _, kv := range c.RespHdr {
		resp.Header.Add(kv.K, kv.V)
	}
	srv := &refServer{resp: resp}
	cp := &prog.ClientProg{Header: c.ReqHeader, Msgs: c.ReqMsgs}
	if len(cp.Msgs) == 0 && (c.Cfg.Kind == prog.Unary || c.Cfg.Kind == prog.Server) {
		cp.Msgs = []prog.Msg{{}}
	}
	if c.Cfg.Kind == prog.Bidi {
		for i := range c.ReqMsgs {
			cp.Ops = append(cp.Ops, prog.COp{Op: "send", Msg: &c.ReqMsgs[i]})
		}
		cp.Ops = append(cp.Ops, prog.COp{Op: "closereq"}, prog.COp{Op: "recvall"}, prog.COp{Op: "closeresp"})
	}
	var res *prog.CResult
	if err := harn.Over(tt, c.Transport, srv, func(hc connect.HTTPClient, mem *memnet.Mem) {
		ctx, cancel := context.WithCancel(context.Background())
		defer cancel()
		if c.Timeout > 0 {
			var c2 context.CancelFunc
			ctx, c2 = context.WithTimeout(ctx, timeDur(c.Timeout))
			defer c2()
		}
		res = prog.RunClient(ctx, hc, c.Cfg, cp, cancel)
	}); err != nil {
		return info, err
	}
	where := fmt.Sprintf("%s/%s/%s client over %s (send %q min %d) against reference server answering %+v", c.Cfg.Protocol, c.Cfg.Codec, c.Cfg.Kind, c.Transport, c.Cfg.CSend, c.Cfg.CMin, c.Resp)
	k := c.Resp.Knobs
	info.NonTrivial = k.LowerHex || k.PadBase64 || k.LowerKeys || k.FinalCRLF || k.TrailersOnly || (len(c.Resp.Msgs) >= 1 && (c.Resp.ErrCode != 0 || len(c.Resp.Trailer) > 0))
	srv.mu.Lock()
	raw := srv.req
	srv.mu.Unlock()
	if raw == nil {
		return info, fmt.Errorf("%s: request never reached the server: %v", where, res.Err)
	}
	// 1. the request is conformant and carries what the application supplied
	dreq, derr := refwire.DecodeRequest(c.Cfg.Protocol, c.Cfg.Kind, c.Cfg.Codec, raw)
	if derr != nil {
		return info, fmt.Errorf("%s: the strict reference decoder rejects the client's request: %v (headers %v, body %q)", where, derr, raw.Header, trunc(raw.Body, 100))
	}
	sent := cp.Msgs
	if len(dreq.Messages) != len(sent) {
		return info, fmt.Errorf("%s: client sent %d messages, %d on the wire", where, len(sent), len(dreq.Messages))
	}
	for i, m := range dreq.Messages {
		n, text, err := refwire.DecodePing(c.Cfg.Codec, m)
		if err != nil || n != sent[i].N || text != sent[i].Text() {
			return info, fmt.Errorf("%s: request message %d on the wire differs from what was sent (%v)", where, i, err)
		}
	}
	if err := prog.SubsequenceOf(prog.KVMap(c.ReqHeader), dreq.Header); err != nil {
		return info, fmt.Errorf("%s: request headers on the wire: %v", where, err)
	}
	if (c.Timeout > 0) != dreq.HasTimeout {
		return info, fmt.Errorf("%s: client deadline set=%v but timeout header present=%v", where, c.Timeout > 0, dreq.HasTimeout)
	}
	if ua := raw.Header.Get("User-Agent"); ua == "" {
		return info, fmt.Errorf("%s: no User-Agent", where)
	}
	// 2. the conformant response is decoded to the same values
	single := c.Cfg.Kind == prog.Unary || c.Cfg.Kind == prog.Client
	if c.Resp.ErrCode == 0 {
		if single && len(c.Resp.Msgs) != 1 {
			return info, nil
		}
		if res.Err != nil || !res.CleanEnd {
			return info, fmt.Errorf("%s: conformant successful response rejected: %v", where, res.Err)
		}
	} else {
		if res.Err == nil || res.Err.Code != c.Resp.ErrCode || res.Err.Msg != c.Resp.ErrMsg {
			return info, fmt.Errorf("%s: conformant error %d %q decoded as %v", where, c.Resp.ErrCode, c.Resp.ErrMsg, res.Err)
		}
		want := c.Resp.Details()
		if len(res.Err.Details) != len(want) {
			return info, fmt.Errorf("%s: conformant error carries %d details, the client reports %d", where, len(want), len(res.Err.Details))
		}
		for i, d := range want {
			if res.Err.Details[i].Type != "connect.ping.v1.PingRequest" || !bytes.Equal(res.Err.Details[i].Value, d.Value) {
				return info, fmt.Errorf("%s: detail %d arrived as %s %x, sent %s %x", where, i, res.Err.Details[i].Type, res.Err.Details[i].Value, d.TypeURL, d.Value)
			}
		}
	}
	if len(res.Received) != len(c.Resp.Msgs) && !(single && c.Resp.ErrCode != 0) {
		return info, fmt.Errorf("%s: reference server sent %d messages, client delivered %d", where, len(c.Resp.Msgs), len(res.Received))
	}
	for i, g := range res.Received {
		if !g.Equal(c.Resp.Msgs[i]) {
			return info, fmt.Errorf("%s: response message %d differs", where, i)
		}
	}
	md := http.Header{}
	if res.Err != nil {
		md = res.Err.Meta
	} else {
		for k, v := range res.Header {
			md[k] = append(md[k], v...)
		}
		for k, v := range res.Trailer {
			md[k] = append(md[k], v...)
		}
		if len(c.Resp.Msgs) >= 1 {
			if err := prog.SubsequenceOf(prog.KVMap(c.Resp.Trailer), res.Trailer); err != nil {
				return info, fmt.Errorf("%s: trailers: %v", where, err)
			}
			if err := prog.SubsequenceOf(prog.KVMap(c.RespHdr), res.Header); err != nil {
				return info, fmt.Errorf("%s: headers: %v", where, err)
			}
		}
	}
	if err := prog.SubsequenceOf(prog.KVMap(c.Resp.Trailer), md); err != nil {
		return info, fmt.Errorf("%s: trailing metadata: %v", where, err)
	}
	if err := prog.SubsequenceOf(prog.KVMap(c.RespHdr), md); err != nil {
		return info, fmt.Errorf("%s: leading metadata: %v", where, err)
	}
	return info, nil
}

const ruleC = "library clients (send-compression, compress-min-bytes, request headers, 0..3 messages, optional deadline) against a reference server answering with conformant responses in every legal variation (lower/upper-case hex escapes, padded/unpadded base64, lower-case keys in trailer block / end-of-stream metadata, optional final CRLF, trailers-only, per-message compression, zero-length messages); oracle: the strict reference decoder accepts the client's request and recovers the messages/headers/timeout the application supplied, and the client decodes the response to exactly the reference's messages, status and metadata; non-trivial = a variation knob is on, or ≥1 message with an error or trailers"

var specC = pbt.Spec[CCase]{Prop: "C05", Name: "client-conformance", Gen: genC([]string{"mem"}), Check: checkC, Rule: ruleC}
var specCNet = pbt.Spec[CCase]{Prop: "C05", Name: "client-conformance-net", Gen: genC([]string{"h1", "h2c"}), Check: checkC, Rule: "as [client-conformance], carried by the standard library's http.Server/http.Transport (HTTP/1.1, h2c)"}

func TestClientConformance(t *testing.T)    { pbt.Run(t, specC) }
func TestClientConformanceNet(t *testing.T) { pbt.Run(t, specCNet) }

func TestReplay(t *testing.T) {
	pbt.ReplayMain(t, pbt.Replayer(specH), pbt.Replayer(specHNet), pbt.Replayer(specC), pbt.Replayer(specCNet))
}

var _ = strings.ToLower

func timeDur(ns int64) time.Duration { return time.Duration(ns) }
