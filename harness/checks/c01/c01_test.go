package c01

import (
	"context"
	"fmt"
	"io"
	"net/http"
	"testing"
	"testing/synctest"
	"time"

	connect "github.com/bufbuild/connect-go"

	"github.com/bufbuild/connect-go/verif/comp"
	"github.com/bufbuild/connect-go/verif/memnet"
	"github.com/bufbuild/connect-go/verif/pbt"
	"github.com/bufbuild/connect-go/verif/prog"
	"github.com/bufbuild/connect-go/verif/refwire"
	"pgregory.net/rapid"
)

// Case is one C01 case: a configuration plus the message sequences of both
// directions.
type Case struct {
	Cfg       prog.Config `json:"cfg"`
	Transport string      `json:"transport"` // mem | h1 | h2c
	Req       []prog.Msg  `json:"req"`
	Res       []prog.Msg  `json:"res"`
	Pattern   string      `json:"pattern,omitempty"` // bidi: pingpong | batch | sendfirst
	// net only (virtual time): the transport's request-body reads lag by LagNS
	// each, and ServeHTTP returns ExitDelayNS after the connect handler finished.
	LagNS       int64 `json:"lag_ns,omitempty"`
	ExitDelayNS int64 `json:"exit_delay_ns,omitempty"`
}

func sizeGen(thresholds []int, big bool) *rapid.Generator[int] {
	return rapid.Custom(func(t *rapid.T) int {
		classes := []string{"zero", "tiny", "pool", "thr", "64k"}
		if big {
			classes = append(classes, "1m", "8m")
		}
		switch rapid.SampledFrom(classes).Draw(t, "sizeclass") {
		case "zero":
			return 0
		case "tiny":
			return rapid.IntRange(1, 16).Draw(t, "tiny")
		case "pool":
			return rapid.IntRange(500, 520).Draw(t, "pool")
		case "thr":
			th := rapid.SampledFrom(thresholds).Draw(t, "thr")
			// proto overhead of a text field of length L<128 is 2 bytes, <16384 is 3
			return max(0, th+rapid.IntRange(-6, 2).Draw(t, "d"))
		case "64k":
			return rapid.IntRange(65530, 65540).Draw(t, "64k")
		case "8m":
			// around the 8 MiB buffer-recycle cap
			return rapid.IntRange(8<<20-16, 8<<20+16).Draw(t, "8m")
		default:
			return rapid.IntRange(1<<20-8, 1<<20+8).Draw(t, "1m")
		}
	})
}

func msgGen(thresholds []int, big bool) *rapid.Generator[prog.Msg] {
	return rapid.Custom(func(t *rapid.T) prog.Msg {
		if rapid.IntRange(0, 3).Draw(t, "zeroMsg") == 0 {
			return prog.Msg{}
		}
		m := prog.Msg{TLen: sizeGen(thresholds, big).Draw(t, "tlen")}
		if rapid.Bool().Draw(t, "hasN") {
			m.N = rapid.Int64().Draw(t, "n")
		}
		m.TSeed = rapid.IntRange(0, 1999).Draw(t, "tseed")
		return m
	})
}

func subsetInOrder(t *rapid.T, universe []string, label string) []string {
	perm := rapid.Permutation(universe).Draw(t, label+"Perm")
	n := rapid.IntRange(0, len(perm)).Draw(t, label+"N")
	return perm[:n]
}

func cfgGen(t *rapid.T) prog.Config {
	cfg := prog.Config{
		Protocol: rapid.SampledFrom(prog.Protocols).Draw(t, "protocol"),
		Codec:    rapid.SampledFrom(prog.Codecs).Draw(t, "codec"),
		Kind:     rapid.SampledFrom(prog.Kinds).Draw(t, "kind"),
	}
	// ("gzipmm": registered as "gzip", but its writer emits two gzip members
	// per message; the other side may well use the library's built-in reader)
	extra := []string{"deflate", "zlib", "toy", "gzip", "gzipmm"}
	cfg.CAccept = subsetInOrder(t, extra, "cAccept")
	cfg.HComp = subsetInOrder(t, extra, "hComp")
	// the send algorithm must be one the handler supports (otherwise the
	// call is rejected as unimplemented, which is C08's domain)
	sendChoices := []string{"", "gzip"}
	for _, a := range cfg.CAccept {
		for _, b := range cfg.HComp {
			if a == b {
				sendChoices = append(sendChoices, comp.WireName(a))
			}
		}
	}
	cfg.CSend = rapid.SampledFrom(sendChoices).Draw(t, "cSend")
	mins := []int{0, 0, 1, 16, 512, 1000, 1 << 30}
	cfg.CMin = rapid.SampledFrom(mins).Draw(t, "cMin")
	cfg.HMin = rapid.SampledFrom(mins).Draw(t, "hMin")
	// far above every generated message: only there so that a defect that
	// desynchronises the stream cannot make the receiver allocate gigabytes
	// for a garbage length prefix (which would merely slow the search down)
	cfg.CReadMax, cfg.HReadMax = 32<<20, 32<<20
	return cfg
}

func gen(transport string, maxLen int, big bool) func(t *rapid.T) Case {
	return func(t *rapid.T) Case {
		c := Case{Cfg: cfgGen(t), Transport: transport}
		th := []int{512, 1000}
		if c.Cfg.CMin > 1 && c.Cfg.CMin < 1<<20 {
			th = append(th, c.Cfg.CMin)
		}
		if c.Cfg.HMin > 1 && c.Cfg.HMin < 1<<20 {
			th = append(th, c.Cfg.HMin)
		}
		mg := msgGen(th, big)
		nReq, nRes := 1, 1
		switch c.Cfg.Kind {
		case prog.Client:
			nReq = rapid.IntRange(0, maxLen).Draw(t, "nReq")
		case prog.Server:
			nRes = rapid.IntRange(0, maxLen).Draw(t, "nRes")
		case prog.Bidi:
			nReq = rapid.IntRange(0, maxLen).Draw(t, "nReq")
			nRes = rapid.IntRange(0, maxLen).Draw(t, "nRes")
			c.Pattern = rapid.SampledFrom([]string{"pingpong", "batch", "sendfirst"}).Draw(t, "pattern")
		}
		for i := 0; i < nReq; i++ {
			c.Req = append(c.Req, mg.Draw(t, "req"))
		}
		for i := 0; i < nRes; i++ {
			c.Res = append(c.Res, mg.Draw(t, "res"))
		}
		if c.Cfg.Codec == "proto" {
			// with the binary codec, fields the receiver's schema does not know
			// are content too (a message built from a newer schema, a forwarder)
			for _, l := range [][]prog.Msg{c.Req, c.Res} {
				for i := range l {
					if rapid.IntRange(0, 5).Draw(t, "unknownField") == 0 {
						l[i].Unk = rapid.SampledFrom([]int{1, 7, 300}).Draw(t, "unknownLen")
					}
				}
			}
		}
		return c
	}
}

// programs derives the handler and client programs from a case.
func programs(c Case) (*prog.HandlerProg, *prog.ClientProg) {
	hp := &prog.HandlerProg{Drain: true}
	cp := &prog.ClientProg{Msgs: c.Req}
	switch c.Cfg.Kind {
	case prog.Unary, prog.Client:
		if len(c.Res) > 0 {
			hp.Resp = &c.Res[0]
		}
	case prog.Server:
		for i := range c.Res {
			hp.Steps = append(hp.Steps, prog.HStep{Op: "send", Msg: &c.Res[i]})
		}
	case prog.Bidi:
		switch c.Pattern {
		case "batch":
			hp.Steps = append(hp.Steps, prog.HStep{Op: "recv", N: -1})
			for i := range c.Res {
				hp.Steps = append(hp.Steps, prog.HStep{Op: "send", Msg: &c.Res[i]})
			}
			for i := range c.Req {
				cp.Ops = append(cp.Ops, prog.COp{Op: "send", Msg: &c.Req[i]})
			}
			cp.Ops = append(cp.Ops, prog.COp{Op: "closereq"}, prog.COp{Op: "recvall"}, prog.COp{Op: "closeresp"})
		case "sendfirst":
			for i := range c.Res {
				hp.Steps = append(hp.Steps, prog.HStep{Op: "send", Msg: &c.Res[i]})
			}
			hp.Steps = append(hp.Steps, prog.HStep{Op: "recv", N: -1})
			for i := range c.Req {
				cp.Ops = append(cp.Ops, prog.COp{Op: "send", Msg: &c.Req[i]})
			}
			cp.Ops = append(cp.Ops, prog.COp{Op: "closereq"}, prog.COp{Op: "recvall"}, prog.COp{Op: "closeresp"})
		default: // pingpong
			n := max(len(c.Req), len(c.Res))
			for i := 0; i < n; i++ {
				hp.Steps = append(hp.Steps, prog.HStep{Op: "recv", N: 1})
				if i < len(c.Res) {
					hp.Steps = append(hp.Steps, prog.HStep{Op: "send", Msg: &c.Res[i]})
				}
			}
			for i := range c.Req {
				cp.Ops = append(cp.Ops, prog.COp{Op: "send", Msg: &c.Req[i]})
				if i < len(c.Res) {
					cp.Ops = append(cp.Ops, prog.COp{Op: "recv"})
				}
			}
			cp.Ops = append(cp.Ops, prog.COp{Op: "closereq"}, prog.COp{Op: "recvall"}, prog.COp{Op: "closeresp"})
		}
	}
	return hp, cp
}

func compare(dir string, want []prog.Msg, got []prog.Obs) error {
	for i := 0; i < len(want) && i < len(got); i++ {
		if !got[i].Equal(want[i]) {
			w := prog.Obs{N: want[i].N, T: want[i].Text()}
			return fmt.Errorf("%s: message %d of %d differs: sent %v, received %v", dir, i, len(want), w, got[i])
		}
	}
	if len(want) != len(got) {
		return fmt.Errorf("%s: sent %d messages, received %d", dir, len(want), len(got))
	}
	return nil
}

func classify(c Case, info *pbt.Info, reqBody, resBody []byte) {
	info.Label("proto:" + c.Cfg.Protocol)
	info.Label("kind:" + c.Cfg.Kind)
	info.Label("codec:" + c.Cfg.Codec)
	multi := len(c.Req) >= 2 || len(c.Res) >= 2
	zeroAfter := false
	straddle := false
	for _, seq := range [][]prog.Msg{c.Req, c.Res} {
		nz := false
		for _, m := range seq {
			if m.Zero() && nz {
				zeroAfter = true
			}
			if !m.Zero() {
				nz = true
			}
			if (m.TLen >= 500 && m.TLen <= 520) || m.TLen > 60000 {
				straddle = true
			}
		}
	}
	compressed := false
	if !(c.Cfg.Protocol == "connect" && c.Cfg.Kind == prog.Unary) {
		for _, b := range [][]byte{reqBody, resBody} {
			frames, _ := refwire.ParseFrames(b)
			for _, f := range frames {
				if f.Flags&refwire.FlagCompressed != 0 {
					compressed = true
				}
			}
		}
	}
	if zeroAfter {
		info.Label("zero-after-nonzero")
	}
	if straddle {
		info.Label("size-straddles-pool-or-64k")
	}
	if compressed {
		info.Label("compressed-envelope-seen")
	}
	if multi {
		info.Label("multi-message")
	}
	info.NonTrivial = multi && (zeroAfter || straddle || compressed)
}

func checkMem(tt *testing.T, c Case) (pbt.Info, error) {
	var info pbt.Info
	hp, cp := programs(c)
	log := &prog.HLog{}
	h := prog.NewHandler(c.Cfg.Kind, hp, log, c.Cfg.HandlerOptions()...)
	mem := &memnet.Mem{Handler: h}
	if c.Transport == "mem1" {
		mem.ProtoMajor = 1
	}
	var res *prog.CResult
	var ex *memnet.Exchange
	// inside a bubble, so that a defect that leaves both sides waiting for
	// bytes that never come is reported as a deadlock instead of hanging
	if berr := pbt.Bubble(tt, func() error {
		ctx, cancel := context.WithCancel(context.Background())
		defer cancel()
		res = prog.RunClient(ctx, mem, c.Cfg, cp, cancel)
		if ex = mem.Last(); ex != nil {
			<-ex.HandlerDone()
		}
		return nil
	}); berr != nil {
		return info, berr
	}
	if ex == nil {
		return info, fmt.Errorf("no exchange happened: %v", res.Err)
	}
	classify(c, &info, ex.ReqBody(), ex.RespBody())
	return info, verdict(c, log, res)
}

// checkNet runs the same case over the real net/http stack (HTTP/1.1 or h2c)
// on in-memory connections inside a synctest bubble.
func checkNet(tt *testing.T, c Case) (pbt.Info, error) {
	var info pbt.Info
	hp, cp := programs(c)
	log := &prog.HLog{}
	h := prog.NewHandler(c.Cfg.Kind, hp, log, c.Cfg.HandlerOptions()...)
	var verr error
	berr := pbt.Bubble(tt, func() error {
		mux := http.NewServeMux()
		mux.Handle(prog.Procedure(c.Cfg.Kind), h)
		var root http.Handler = mux
		if c.ExitDelayNS > 0 {
			root = http.HandlerFunc(func(w http.ResponseWriter, r *http.Request) {
				mux.ServeHTTP(w, r)
				time.Sleep(time.Duration(c.ExitDelayNS))
			})
		}
		pn := memnet.NewPipeNet(root, c.Transport == "h2c")
		var hc connect.HTTPClient = pn.Client
		if c.LagNS > 0 {
			hc = laggingClient{inner: pn.Client, lag: time.Duration(c.LagNS)}
		}
		ctx, cancel := context.WithCancel(context.Background())
		res := prog.RunClient(ctx, hc, c.Cfg, cp, cancel)
		cancel()
		pn.Close()
		synctest.Wait()
		verr = verdict(c, log, res)
		return nil
	})
	classify(c, &info, nil, nil)
	info.Label("transport:" + c.Transport)
	if berr != nil {
		return info, berr
	}
	return info, verr
}

type laggingClient struct {
	inner connect.HTTPClient
	lag   time.Duration
}

type laggingBody struct {
	io.ReadCloser
	lag time.Duration
}

func (b laggingBody) Read(p []byte) (int, error) {
	time.Sleep(b.lag)
	return b.ReadCloser.Read(p)
}

func (l laggingClient) Do(r *http.Request) (*http.Response, error) {
	if r.Body != nil {
		r.Body = laggingBody{ReadCloser: r.Body, lag: l.lag}
	}
	return l.inner.Do(r)
}

func verdict(c Case, log *prog.HLog, res *prog.CResult) error {
	calls := log.Snapshot()
	if len(calls) != 1 {
		return fmt.Errorf("handler invoked %d times (client error: %v)", len(calls), res.Err)
	}
	hc := calls[0]
	if err := compare("client→handler", c.Req, hc.Received); err != nil {
		return err
	}
	if c.Cfg.Kind == prog.Client || c.Cfg.Kind == prog.Bidi {
		if hc.RecvEnd != "eof" {
			return fmt.Errorf("handler did not see a clean end of the request stream: end=%q err=%v", hc.RecvEnd, hc.RecvErr)
		}
	}
	if len(hc.SendErrs) > 0 {
		return fmt.Errorf("handler Send failed: %v", hc.SendErrs[0])
	}
	if res.Err != nil {
		return fmt.Errorf("client call failed: %v", res.Err)
	}
	if err := compare("handler→client", c.Res, res.Received); err != nil {
		return err
	}
	if !res.CleanEnd {
		return fmt.Errorf("client did not observe a clean end of stream")
	}
	if len(res.SendErrs) > 0 {
		return fmt.Errorf("client Send failed: %v", res.SendErrs[0])
	}
	return nil
}

func netGen(t *rapid.T) Case {
	tr := rapid.SampledFrom([]string{"h1", "h2c"}).Draw(t, "transport")
	c := gen(tr, 6, false)(t)
	if rapid.IntRange(0, 3).Draw(t, "lagging") == 0 {
		c.LagNS = rapid.SampledFrom([]int64{1e6, 100e6}).Draw(t, "lag")
		c.ExitDelayNS = rapid.SampledFrom([]int64{0, 50e6, 500e6}).Draw(t, "exitDelay")
	}
	if tr == "h1" && c.Cfg.Kind == prog.Bidi {
		// bidi needs HTTP/2: use a half-duplex kind instead
		c.Cfg.Kind = prog.Client
		c.Pattern = ""
		c.Res = c.Res[:min(len(c.Res), 1)]
		if len(c.Res) == 0 {
			c.Res = []prog.Msg{{}}
		}
	}
	return c
}

var specNet = pbt.Spec[Case]{
	Prop: "C01", Name: "net",
	Gen:   netGen,
	Check: checkNet,
	Rule:  "same generator as [mem] but carried by the real net/http server and transport (HTTP/1.1 and unencrypted HTTP/2) over net.Pipe inside a synctest bubble, optionally with lagging request-body reads and a delayed return of ServeHTTP (virtual time); non-trivial as in [mem] except that compression is judged from the configuration, not the wire",
}

func TestNet(t *testing.T) { pbt.Run(t, specNet) }

func netBigGen(t *rapid.T) Case {
	c := netGen(t)
	// a few messages of ~1 MiB: larger than HTTP/2's default frame and
	// flow-control quanta, so net/http splits them (and their prefixes) freely
	for i := range c.Req {
		if i < 2 && rapid.Bool().Draw(t, "bigReq") {
			c.Req[i].TLen = rapid.IntRange(1<<20-8, 1<<20+8).Draw(t, "1m")
		}
	}
	for i := range c.Res {
		if i < 2 && rapid.Bool().Draw(t, "bigRes") {
			c.Res[i].TLen = rapid.IntRange(1<<20-8, 1<<20+8).Draw(t, "1m")
		}
	}
	if c.Pattern == "sendfirst" {
		c.Pattern = "pingpong" // both sides sending megabytes before reading would be a deadlock of the program itself
	}
	return c
}

var specNetBig = pbt.Spec[Case]{
	Prop: "C01", Name: "net-big",
	Gen:   netBigGen,
	Check: checkNet,
	Rule:  "as [net] with up to two ~1 MiB messages per direction (beyond HTTP/2 frame size and flow-control quanta)",
}

func TestNetBig(t *testing.T) { pbt.Run(t, specNetBig) }

var specMem = pbt.Spec[Case]{
	Prop: "C01", Name: "mem",
	Gen:   gen("mem", 8, false),
	Check: checkMem,
	Rule:  "rapid-generated (config × request sequence × response sequence) over the in-memory transport; non-trivial = ≥2 messages in one direction AND (a zero-valued message after a non-zero one OR a size in a pool/64KiB straddling class OR a compressed envelope actually observed on the wire); distinct = distinct canonical JSON of the case",
}

func TestMem(t *testing.T) { pbt.Run(t, specMem) }

var specMemBig = pbt.Spec[Case]{
	Prop: "C01", Name: "mem-big",
	Gen:   gen("mem", 3, true),
	Check: checkMem,
	Rule:  "as [mem] with sequences of up to 3 messages whose sizes also come from the 1 MiB ± 8 and 8 MiB ± 16 classes (the buffer pool's recycle cap)",
}

func TestMemBig(t *testing.T) { pbt.Run(t, specMemBig) }

func TestReplay(t *testing.T) {
	pbt.ReplayMain(t, pbt.Replayer(specMem), pbt.Replayer(specNet), pbt.Replayer(specMemBig), pbt.Replayer(specNetBig))
}

// TestRecycleCapSweep enumerates short sequences whose message sizes sit on
// both sides of the buffer pool's 8 MiB recycle cap (and of 1 MiB), with a
// zero-valued or smaller message after a huge one, in both directions.
func TestRecycleCapSweep(t *testing.T) {
	defer pbt.Flush()
	big := func(n int64, size int, seed int) prog.Msg { return prog.Msg{N: n, TLen: size, TSeed: seed} }
	const cap8 = 8 << 20
	seqs := [][]prog.Msg{
		{big(7, cap8+64, 1), big(0, cap8+32, 2)},         // two over-cap messages, the later with a zero number
		{big(7, cap8+64, 1), {}, big(0, cap8-64, 3)},     // over cap, zero-valued, just under cap
		{big(3, cap8-16, 4), big(0, cap8+16, 5), {N: 9}}, // straddling, then tiny
		{big(5, 1<<20+8, 6), big(0, 1<<20-8, 7), {}},     // 1 MiB straddle then zero-valued
	}
	total := 0
	var samples []any
	for _, protocol := range prog.Protocols {
		for _, kind := range []string{prog.Client, prog.Server, prog.Bidi} {
			for si, seq := range seqs {
				if pbt.Tier() == "quick" && (si+len(protocol)+len(kind))%2 == 1 {
					continue // quick: half of the grid
				}
				c := Case{Cfg: prog.Config{Protocol: protocol, Codec: "proto", Kind: kind, CReadMax: 64 << 20, HReadMax: 64 << 20}, Transport: "mem", Pattern: "batch"}
				switch kind {
				case prog.Client:
					c.Req, c.Res = seq, []prog.Msg{{N: 1}}
				case prog.Server:
					c.Req, c.Res = []prog.Msg{{N: 1}}, seq
				default:
					c.Req, c.Res = seq, seq
				}
				total++
				if _, err := checkMem(t, c); err != nil {
					path := pbt.SaveReplay(specMem, c, err)
					fmt.Printf("VIOLATION property=C01 replay=%s\n", path)
					t.Fatalf("C01/recycle-cap-sweep violated: %v", err)
				}
				if len(samples) < 2 {
					samples = append(samples, c)
				}
			}
		}
	}
	pbt.RecordBulk("C01", "recycle-cap-sweep", "enumerated sequences around the 8 MiB buffer-recycle cap and 1 MiB (over cap then over cap with a zero field; over cap, zero-valued, under cap; straddling then tiny) × 3 protocols × {client, server, bidi} over the in-memory transport (quick: half of the grid); same oracle as [mem]; every case is non-trivial", total, total, pbt.Thorough(), samples...)
}
