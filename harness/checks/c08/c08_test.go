package c08

import (
	"bytes"
	"context"
	"fmt"
	"net/http"
	"strings"
	"testing"

	connect "github.com/bufbuild/connect-go"
	pingv1 "github.com/bufbuild/connect-go/internal/gen/connect/ping/v1"
	"github.com/bufbuild/connect-go/verif/comp"
	"github.com/bufbuild/connect-go/verif/memnet"
	"github.com/bufbuild/connect-go/verif/pbt"
	"github.com/bufbuild/connect-go/verif/prog"
	"github.com/bufbuild/connect-go/verif/refwire"
	"pgregory.net/rapid"
)

func headerNames(protocol, kind string) (enc, accept string) {
	switch protocol {
	case "connect":
		if kind == prog.Unary {
			return "Content-Encoding", "Accept-Encoding"
		}
		return "Connect-Content-Encoding", "Connect-Accept-Encoding"
	}
	return "Grpc-Encoding", "Grpc-Accept-Encoding"
}

func contains(list []string, s string) bool {
	for _, x := range list {
		if x == s {
			return true
		}
	}
	return false
}

func splitList(s string) []string {
	var out []string
	for _, f := range strings.FieldsFunc(s, func(r rune) bool { return r == ',' || r == ' ' }) {
		out = append(out, f)
	}
	return out
}

// ---------- handler-side negotiation ----------

type HCase struct {
	Protocol  string   `json:"protocol"`
	Codec     string   `json:"codec"`
	Kind      string   `json:"kind"`
	HComp     []string `json:"h_comp"` // extra registrations on the handler, in order (gzip is pre-registered)
	HMin      int      `json:"h_min"`
	ReqEnc    string   `json:"req_enc"`
	ReqFlag   bool     `json:"req_flag"` // compress the request message
	Accept    []string `json:"accept"`
	AcceptSep string   `json:"accept_sep"`
	ReqSize   int      `json:"req_size"`
	RespSize  int      `json:"resp_size"`
	// Stray: the request also carries the *other* accept header (plain
	// Accept-Encoding on streaming/gRPC requests, Connect-Accept-Encoding on
	// unary ones), naming algorithms; it is not this protocol's advertisement.
	Stray string `json:"stray,omitempty"`
	// Warm: before the request under test, the SAME handler serves a request
	// with the same accept header but this request encoding ("-" = none).
	// Negotiation is per call: the earlier peer's choices must not matter.
	Warm string `json:"warm,omitempty"`
}

func supported(extra []string) []string {
	out := []string{"gzip"}
	for _, e := range extra {
		if !contains(out, e) {
			out = append(out, e)
		}
	}
	return out
}

func checkH(tt *testing.T, c HCase) (pbt.Info, error) {
	var info pbt.Info
	S := supported(c.HComp)
	info.Label("proto:" + c.Protocol)
	info.Label("kind:" + c.Kind)
	reqMsg := prog.Msg{N: 4, TLen: c.ReqSize, TSeed: 1001}
	respMsg := prog.Msg{N: 5, TLen: c.RespSize, TSeed: 1002}
	hp := &prog.HandlerProg{Drain: true, Resp: &respMsg, PropagateRecvErr: true}
	if c.Kind == prog.Server || c.Kind == prog.Bidi {
		hp.Steps = []prog.HStep{{Op: "recv", N: -1}, {Op: "send", Msg: &respMsg}}
	}
	log := &prog.HLog{}
	cfg := prog.Config{HComp: c.HComp, HMin: c.HMin}
	h := prog.NewHandler(c.Kind, hp, log, cfg.HandlerOptions()...)
	reqCompressed := c.ReqFlag && c.ReqEnc != "" && c.ReqEnc != "identity" && contains(comp.Universe, c.ReqEnc)
	if c.Protocol == "connect" && c.Kind == prog.Unary && contains(comp.Universe, c.ReqEnc) {
		reqCompressed = true // Content-Encoding describes the whole unary body
	}
	req := refwire.BuildRequest(&refwire.ReqSpec{
		Protocol: c.Protocol, Kind: c.Kind, Codec: c.Codec,
		Msgs:     [][]byte{refwire.EncodePing(c.Codec, reqMsg.N, reqMsg.Text())},
		Encoding: c.ReqEnc, CompressMsg: []bool{reqCompressed}, Accept: c.Accept, AcceptSep: c.AcceptSep,
	})
	encH, accH := headerNames(c.Protocol, c.Kind)
	if c.ReqEnc != "" && req.Header.Get(encH) == "" {
		req.Header.Set(encH, c.ReqEnc) // unary Connect builder names the encoding only when it compresses
	}
	if c.Stray != "" {
		other := "Accept-Encoding"
		if accH == other {
			other = "Connect-Accept-Encoding"
		}
		req.Header.Set(other, c.Stray)
		info.Label("stray-accept-header")
	}
	if c.Warm != "" {
		wenc := c.Warm
		if wenc == "-" {
			wenc = ""
		}
		wreq := refwire.BuildRequest(&refwire.ReqSpec{
			Protocol: c.Protocol, Kind: c.Kind, Codec: c.Codec,
			Msgs:     [][]byte{refwire.EncodePing(c.Codec, 9, "warm-up")},
			Encoding: wenc, CompressMsg: []bool{wenc != ""}, Accept: c.Accept, AcceptSep: c.AcceptSep,
		})
		_ = memnet.Serve(h, "POST", prog.Procedure(c.Kind), wreq.Header, bytes.NewReader(wreq.Body), memnet.ServeOpts{})
		log.Reset()
		info.Label("handler-served-another-peer-first")
	}
	rec := memnet.Serve(h, "POST", prog.Procedure(c.Kind), req.Header, bytes.NewReader(req.Body), memnet.ServeOpts{})
	where := fmt.Sprintf("%s/%s/%s handler supporting %v (min %d), request encoding %q (compressed=%v), accept %q", c.Protocol, c.Codec, c.Kind, S, c.HMin, c.ReqEnc, reqCompressed, strings.Join(c.Accept, c.AcceptSep))
	if rec.Panicked {
		return info, fmt.Errorf("%s: panic %v", where, rec.PanicValue)
	}
	calls := log.Snapshot()
	raw := &refwire.Response{Status: rec.Status, Header: rec.Header, Body: rec.Body, Trailer: rec.Trailer}
	dec, derr := refwire.DecodeResponse(c.Protocol, c.Kind, refwire.ContentType(c.Protocol, c.Kind, c.Codec), raw)
	unknown := c.ReqEnc != "" && c.ReqEnc != "identity" && !contains(S, c.ReqEnc)
	var mutualFirst string
	for _, a := range c.Accept {
		if contains(S, a) {
			mutualFirst = a
			break
		}
	}
	differ := len(c.Accept) > 0 && (mutualFirst != "" && mutualFirst != c.Accept[0] || len(S) > 1)
	info.NonTrivial = differ || unknown || (c.HMin > 1 && abs(c.RespSize-c.HMin) <= 8)
	if unknown {
		info.Label("unknown-request-encoding")
		if len(calls) != 0 {
			return info, fmt.Errorf("%s: request uses an algorithm the handler lacks but user code ran", where)
		}
		if derr != nil {
			return info, fmt.Errorf("%s: rejection is not well-formed: %v", where, derr)
		}
		if dec.Status.Code != uint32(connect.CodeUnimplemented) {
			return info, fmt.Errorf("%s: rejected with code %d, want unimplemented", where, dec.Status.Code)
		}
		for _, name := range S {
			if !strings.Contains(dec.Status.Message, name) {
				return info, fmt.Errorf("%s: error message %q does not list supported algorithm %q", where, dec.Status.Message, name)
			}
		}
		return info, nil
	}
	if derr != nil {
		return info, fmt.Errorf("%s: response not decodable by the reference (own decompressors): %v", where, derr)
	}
	if dec.Status.Code != 0 {
		return info, fmt.Errorf("%s: call failed with code %d %q", where, dec.Status.Code, dec.Status.Message)
	}
	if len(calls) != 1 || len(calls[0].Received) != 1 || !calls[0].Received[0].Equal(reqMsg) {
		return info, fmt.Errorf("%s: handler did not receive the request message intact (calls %d)", where, len(calls))
	}
	if len(dec.Messages) != 1 {
		return info, fmt.Errorf("%s: %d response messages", where, len(dec.Messages))
	}
	n, text, err := refwire.DecodePing(c.Codec, dec.Messages[0])
	if err != nil || n != respMsg.N || text != respMsg.Text() {
		return info, fmt.Errorf("%s: response payload (after the harness's own decompression with %q) is not the message the handler sent: %v", where, dec.Encoding, err)
	}
	R := rec.Header.Get(encH)
	compressed := dec.Compressed[0]
	if compressed {
		info.Label("response-compressed")
		if R == "" || R == "identity" {
			return info, fmt.Errorf("%s: response payload is compressed but %s names no algorithm", where, encH)
		}
	}
	if R != "" && R != "identity" {
		if !contains(S, R) {
			return info, fmt.Errorf("%s: response names algorithm %q that the handler does not support", where, R)
		}
		reqUsed := c.ReqEnc != "" && c.ReqEnc != "identity"
		if reqUsed {
			if R != c.ReqEnc && !contains(c.Accept, R) {
				return info, fmt.Errorf("%s: response algorithm %q was neither used nor advertised by the client", where, R)
			}
		} else if R != mutualFirst {
			return info, fmt.Errorf("%s: response algorithm %q is not the client's most-preferred mutually supported one (%q)", where, R, mutualFirst)
		}
	}
	if compressed && len(dec.Messages[0]) < c.HMin {
		return info, fmt.Errorf("%s: response message of %d bytes is below the configured minimum %d but was compressed", where, len(dec.Messages[0]), c.HMin)
	}
	// the handler advertises what it supports
	adv := splitList(rec.Header.Get(accH))
	for _, name := range S {
		if !contains(adv, name) {
			return info, fmt.Errorf("%s: %s %q does not list supported algorithm %q", where, accH, rec.Header.Get(accH), name)
		}
	}
	return info, nil
}

func abs(x int) int {
	if x < 0 {
		return -x
	}
	return x
}

func algList(t *rapid.T, label string, pool []string, maxN int) []string {
	n := rapid.IntRange(0, maxN).Draw(t, label+"N")
	var out []string
	for i := 0; i < n; i++ {
		out = append(out, rapid.SampledFrom(pool).Draw(t, label))
	}
	return out
}

func genH(t *rapid.T) HCase {
	c := HCase{
		Protocol: rapid.SampledFrom(prog.Protocols).Draw(t, "protocol"),
		Codec:    rapid.SampledFrom(prog.Codecs).Draw(t, "codec"),
		Kind:     rapid.SampledFrom(prog.Kinds).Draw(t, "kind"),
	}
	c.HComp = algList(t, "hcomp", []string{"deflate", "zlib", "toy", "gzip"}, 4)
	c.HMin = rapid.SampledFrom([]int{0, 0, 1, 40, 200, 1 << 30}).Draw(t, "hmin")
	c.ReqEnc = rapid.SampledFrom([]string{"", "", "identity", "gzip", "deflate", "zlib", "toy", "br", "GZIP", "snappy"}).Draw(t, "reqenc")
	c.ReqFlag = rapid.Bool().Draw(t, "reqflag")
	c.Accept = algList(t, "accept", []string{"gzip", "deflate", "zlib", "toy", "br", "identity", "zstd", "GZIP", "gzip;q=0", "deflate;q=0", "toy; q=0"}, 5) // (q=0: explicitly refused)
	c.AcceptSep = rapid.SampledFrom([]string{",", ", "}).Draw(t, "sep")
	c.ReqSize = rapid.SampledFrom([]int{0, 3, 100, 3000}).Draw(t, "reqsize")
	if rapid.IntRange(0, 2).Draw(t, "warm") == 0 {
		c.Warm = rapid.SampledFrom([]string{"-", "gzip", "gzip", "deflate"}).Draw(t, "warmEnc")
	}
	if rapid.IntRange(0, 3).Draw(t, "stray") == 0 {
		c.Stray = rapid.SampledFrom([]string{"gzip", "gzip, deflate", "deflate", "toy"}).Draw(t, "strayList")
	}
	base := 100
	if c.HMin > 1 && c.HMin < 1<<20 {
		base = c.HMin
	}
	c.RespSize = max(0, base+rapid.IntRange(-12, 6).Draw(t, "respdelta"))
	return c
}

var specH = pbt.Spec[HCase]{
	Prop: "C08", Name: "handler-negotiation", Gen: genH, Check: checkH,
	Rule: "reference-client requests against handlers with generated algorithm registrations (any order, duplicates, gzip re-registered) and compress-min-bytes; request encoding ∈ {none, identity, supported, unsupported, unknown, wrong case}, accept lists of ≤5 names in any order with unknown names, duplicates and 'identity', separators ',' and ', '; response sizes around the threshold; oracle = negotiation model (response algorithm ∈ supported ∩ ({used} ∪ advertised); first mutual name if the request was uncompressed; named in the protocol's header; below-minimum ⇒ uncompressed; unknown request algorithm ⇒ unimplemented listing the supported names without running user code) and lossless decompression with the harness's own decompressors; non-trivial = several supported algorithms or the first advertised name is not the mutual one, or an unknown request encoding, or a size within 8 bytes of the threshold",
}

func TestHandlerNegotiation(t *testing.T) { pbt.Run(t, specH) }

// ---------- client side ----------

type CCase struct {
	Protocol string   `json:"protocol"`
	Codec    string   `json:"codec"`
	Kind     string   `json:"kind"`
	CAccept  []string `json:"c_accept"`
	CSend    string   `json:"c_send"`
	CMin     int      `json:"c_min"`
	ReqSize  int      `json:"req_size"`
	RespEnc  string   `json:"resp_enc"`
	RespFlag bool     `json:"resp_flag"`
	// EndCompressed: the server also compresses its final end-of-stream envelope / trailer frame
	EndCompressed bool `json:"end_compressed,omitempty"`
}

func clientAdvertised(extra []string) []string {
	// registration order: gzip, then extra; the last registered is the most preferred
	reg := append([]string{"gzip"}, extra...)
	var out []string
	for i := len(reg) - 1; i >= 0; i-- {
		if !contains(out, reg[i]) {
			out = append(out, reg[i])
		}
	}
	return out
}

func checkC(tt *testing.T, c CCase) (pbt.Info, error) {
	var info pbt.Info
	info.Label("proto:" + c.Protocol)
	info.Label("kind:" + c.Kind)
	respMsg := prog.Msg{N: 9, TLen: 300, TSeed: 1003}
	registered := clientAdvertised(c.CAccept)
	respCompressed := c.RespFlag && c.RespEnc != "" && contains(comp.Universe, c.RespEnc)
	resp, err := refwire.BuildResponse(&refwire.RespSpec{
		Protocol: c.Protocol, Kind: c.Kind, ContentType: refwire.ContentType(c.Protocol, c.Kind, c.Codec),
		Msgs: [][]byte{refwire.EncodePing(c.Codec, respMsg.N, respMsg.Text())}, Encoding: c.RespEnc, CompressMsg: []bool{respCompressed},
		Knobs: refwire.Knobs{CompressEnd: c.EndCompressed && contains(comp.Universe, c.RespEnc)},
	})
	if err != nil {
		return info, nil
	}
	if c.EndCompressed {
		info.Label("compressed-end-of-stream-frame")
	}
	encH, accH := headerNames(c.Protocol, c.Kind)
	if c.RespEnc == "br" && c.Protocol == "connect" && c.Kind == prog.Unary {
		resp.Header.Set(encH, "br") // an unknown Content-Encoding on a unary body
	}
	sc := memnet.NewScript(resp.Status, resp.Header, bytes.NewReader(resp.Body), resp.Trailer)
	cfg := prog.Config{Protocol: c.Protocol, Codec: c.Codec, Kind: c.Kind, CAccept: c.CAccept, CSend: c.CSend, CMin: c.CMin}
	reqMsg := prog.Msg{N: 2, TLen: c.ReqSize, TSeed: 1004}
	cp := &prog.ClientProg{Msgs: []prog.Msg{reqMsg}}
	if c.Kind == prog.Bidi {
		cp.Ops = []prog.COp{{Op: "send", Msg: &reqMsg}, {Op: "closereq"}, {Op: "recvall"}, {Op: "closeresp"}}
	}
	res := prog.RunClient(context.Background(), sc, cfg, cp, nil)
	sc.WaitRequest()
	where := fmt.Sprintf("%s/%s/%s client registering %v after gzip, send %q (min %d), request of %d text bytes; server answers with encoding %q (compressed=%v)", c.Protocol, c.Codec, c.Kind, c.CAccept, c.CSend, c.CMin, c.ReqSize, c.RespEnc, respCompressed)
	info.NonTrivial = len(registered) > 1 || c.CSend != "" || (c.RespEnc != "" && !contains(registered, c.RespEnc))
	// 1. what the client advertised
	got := splitList(sc.ReqHeader.Get(accH))
	if strings.Join(got, ",") != strings.Join(registered, ",") {
		return info, fmt.Errorf("%s: client advertised %q, registration order (last = most preferred) gives %q", where, got, registered)
	}
	named := resp.Header.Get(encH) // what the scripted server actually announced
	usable := named == "" || named == "identity" || contains(registered, named)
	// 2. the request as written (a call that fails on the response headers may
	// abandon its request body mid-way; then only the response clause applies)
	rawReq := &refwire.Request{Method: "POST", Header: sc.ReqHeader, Body: sc.ReqBody()}
	dreq, derr := refwire.DecodeRequest(c.Protocol, c.Kind, c.Codec, rawReq)
	if !usable {
		info.Label("unregistered-response-encoding")
		if res.Err == nil || !res.Err.IsConnect || res.Err.Code == 0 {
			return info, fmt.Errorf("%s: server used an encoding the client did not register; client outcome %v", where, res.Err)
		}
		return info, nil
	}
	if derr != nil {
		return info, fmt.Errorf("%s: request not decodable by the reference (own decompressors): %v", where, derr)
	}
	if len(dreq.Messages) != 1 {
		return info, fmt.Errorf("%s: %d request messages on the wire", where, len(dreq.Messages))
	}
	n, text, perr := refwire.DecodePing(c.Codec, dreq.Messages[0])
	if perr != nil || n != reqMsg.N || text != reqMsg.Text() {
		return info, fmt.Errorf("%s: request payload after own decompression is not the message sent: %v", where, perr)
	}
	E := sc.ReqHeader.Get(encH)
	if dreq.Compressed[0] {
		info.Label("request-compressed")
		if E != c.CSend || c.CSend == "" {
			return info, fmt.Errorf("%s: request payload compressed, header %s=%q, configured send compression %q", where, encH, E, c.CSend)
		}
		if len(dreq.Messages[0]) < c.CMin {
			return info, fmt.Errorf("%s: request message of %d bytes is below the minimum %d but was compressed", where, len(dreq.Messages[0]), c.CMin)
		}
	}
	if E != "" && E != "identity" && E != c.CSend {
		return info, fmt.Errorf("%s: request names encoding %q, configured %q", where, E, c.CSend)
	}
	// 3. the response
	if usable {
		if res.Err != nil || len(res.Received) != 1 || !res.Received[0].Equal(respMsg) {
			return info, fmt.Errorf("%s: response in a registered encoding was not delivered intact: %v", where, res.Err)
		}
	} else {
		info.Label("unregistered-response-encoding")
		if res.Err == nil {
			return info, fmt.Errorf("%s: server used an encoding the client did not register, yet the call succeeded (received %v)", where, res.Received)
		}
		if !res.Err.IsConnect || res.Err.Code == 0 {
			return info, fmt.Errorf("%s: uncoded error %v", where, res.Err)
		}
	}
	return info, nil
}

func genC(t *rapid.T) CCase {
	c := CCase{
		Protocol: rapid.SampledFrom(prog.Protocols).Draw(t, "protocol"),
		Codec:    rapid.SampledFrom(prog.Codecs).Draw(t, "codec"),
		Kind:     rapid.SampledFrom(prog.Kinds).Draw(t, "kind"),
	}
	c.CAccept = algList(t, "caccept", []string{"deflate", "zlib", "toy", "gzip"}, 4)
	reg := clientAdvertised(c.CAccept)
	c.CSend = rapid.SampledFrom(append([]string{"", ""}, reg...)).Draw(t, "csend")
	c.CMin = rapid.SampledFrom([]int{0, 0, 1, 40, 200, 1 << 30}).Draw(t, "cmin")
	base := 100
	if c.CMin > 1 && c.CMin < 1<<20 {
		base = c.CMin
	}
	c.ReqSize = max(0, base+rapid.IntRange(-12, 6).Draw(t, "reqdelta"))
	c.RespEnc = rapid.SampledFrom([]string{"", "", "identity", "gzip", "deflate", "zlib", "toy", "br"}).Draw(t, "respenc")
	c.RespFlag = rapid.Bool().Draw(t, "respflag")
	c.EndCompressed = rapid.IntRange(0, 2).Draw(t, "endCompressed") == 0
	return c
}

var specC = pbt.Spec[CCase]{
	Prop: "C08", Name: "client-side", Gen: genC, Check: checkC,
	Rule: "library clients with generated registrations / send-compression / compress-min-bytes against a scripted reference server answering in a registered, unregistered or no encoding; oracle: advertised list == registration order reversed (last registered most preferred), request compressed only with the configured algorithm, named in the protocol's header and never below the minimum, payload decompresses (own decompressor) to the message, registered response encodings decode, unregistered ones fail with a coded error; non-trivial = >1 algorithm registered or send-compression on or unregistered response encoding",
}

func TestClientSide(t *testing.T) { pbt.Run(t, specC) }

// ---------- histories on shared pools ----------

type Op struct {
	Side     string `json:"side"` // handler | client
	Protocol string `json:"protocol"`
	Alg      string `json:"alg"`
	Corrupt  string `json:"corrupt"` // "" valid | header | truncate | checksum | garbage | wrongalg
	Size     int    `json:"size"`
	// Overlap (valid ops only): run TWO valid calls so that the second runs
	// completely while the first is paused in the middle of decompressing.
	Overlap bool `json:"overlap,omitempty"`
}

type HistCase struct {
	Ops []Op `json:"ops"`
}

func corrupt(kind, alg string, z []byte, raw []byte) []byte {
	switch kind {
	case "header":
		out := append([]byte(nil), z...)
		for i := 0; i < len(out) && i < 4; i++ {
			out[i] ^= 0xA5
		}
		return out
	case "truncate":
		return append([]byte(nil), z[:len(z)/2]...)
	case "checksum":
		out := append([]byte(nil), z...)
		if len(out) > 0 {
			out[len(out)-1] ^= 0xFF
		}
		if len(out) > 5 {
			out[len(out)-5] ^= 0xFF
		}
		return out
	case "garbage":
		return append(append([]byte(nil), z...), []byte("trailing garbage!")...)
	case "oversize":
		// valid stream, but it decompresses to more than the handler's read limit
		return comp.Compress(alg, refwire.EncodePing("proto", 1, strings.Repeat("z", 300000)))
	case "wrongalg":
		other := "zlib"
		if alg == "zlib" {
			other = "gzip"
		}
		return comp.Compress(other, raw)
	}
	return z
}

func checkHist(tt *testing.T, c HistCase) (pbt.Info, error) {
	var info pbt.Info
	algs := []string{"deflate", "zlib", "toy", "gzip"} // gzip re-registered: harness-provided, pausable
	defer comp.DisarmGate()
	resp := prog.Msg{N: 1, TLen: 50, TSeed: 1001}
	log := &prog.HLog{}
	h := prog.NewHandler(prog.Client, &prog.HandlerProg{Drain: true, Resp: &resp, PropagateRecvErr: true}, log, prog.Config{HComp: algs, HReadMax: 100000}.HandlerOptions()...)
	clients := map[string]*connect.Client[pingv1.PingRequest, pingv1.PingResponse]{}
	holder := &switchClient{}
	for _, p := range prog.Protocols {
		cfg := prog.Config{Protocol: p, Codec: "proto", Kind: prog.Server, CAccept: algs, CReadMax: 100000}
		clients[p] = connect.NewClient[pingv1.PingRequest, pingv1.PingResponse](holder, prog.BaseURL+prog.Procedure(prog.Server), cfg.ClientOptions()...)
	}
	afterCorrupt := map[string]bool{}
	for i, op := range c.Ops {
		msg := prog.Msg{N: int64(i + 1), TLen: op.Size, TSeed: 1000 + i}
		where := fmt.Sprintf("op %d of %d: %+v", i, len(c.Ops), op)
		key := op.Side + op.Alg
		if op.Corrupt == "" && afterCorrupt[key] {
			info.NonTrivial = true
			info.Label("valid-call-right-after-corrupt-one-same-algorithm")
		}
		afterCorrupt[key] = op.Corrupt != ""
		if op.Side == "handler" {
			raw1 := refwire.EncodePing("proto", msg.N, msg.Text())
			raw2 := refwire.EncodePing("proto", msg.N+1000, msg.Text())
			var body []byte
			z2 := comp.Compress(op.Alg, raw2)
			body = refwire.AppendFrame(body, refwire.FlagCompressed, comp.Compress(op.Alg, raw1))
			body = refwire.AppendFrame(body, refwire.FlagCompressed, corrupt(op.Corrupt, op.Alg, z2, raw2))
			req := refwire.BuildRequest(&refwire.ReqSpec{Protocol: op.Protocol, Kind: prog.Client, Codec: "proto", Encoding: op.Alg})
			before := len(log.Snapshot())
			if op.Overlap && op.Corrupt == "" {
				// a second, different valid call runs completely while this one is
				// paused inside its decompressor
				info.Label("overlapping-valid-calls")
				m2 := prog.Msg{N: msg.N + 500000, TLen: op.Size + 7, TSeed: 1500 + i}
				rawB := refwire.EncodePing("proto", m2.N, m2.Text())
				bodyB := refwire.AppendFrame(nil, refwire.FlagCompressed, comp.Compress(op.Alg, rawB))
				gate := comp.ArmGate()
				doneA := make(chan *memnet.Recorded, 1)
				go func() {
					doneA <- memnet.Serve(h, "POST", prog.Procedure(prog.Client), req.Header, bytes.NewReader(body), memnet.ServeOpts{})
				}()
				var recA *memnet.Recorded
				select {
				case <-gate.Reached:
					recB := memnet.Serve(h, "POST", prog.Procedure(prog.Client), req.Header, bytes.NewReader(bodyB), memnet.ServeOpts{})
					close(gate.Release)
					recA = <-doneA
					decB, errB := refwire.DecodeResponse(op.Protocol, prog.Client, refwire.ContentType(op.Protocol, prog.Client, "proto"), &refwire.Response{Status: recB.Status, Header: recB.Header, Body: recB.Body, Trailer: recB.Trailer})
					if recB.Panicked || errB != nil || decB.Status.Code != 0 {
						return info, fmt.Errorf("%s: the valid call that ran while another call was decompressing failed (panic=%v, %v, %+v) — earlier ops: %v", where, recB.Panicked, errB, statusOf(decB), c.Ops[:i])
					}
				case recA = <-doneA:
					close(gate.Release)
				}
				comp.DisarmGate()
				decA, errA := refwire.DecodeResponse(op.Protocol, prog.Client, refwire.ContentType(op.Protocol, prog.Client, "proto"), &refwire.Response{Status: recA.Status, Header: recA.Header, Body: recA.Body, Trailer: recA.Trailer})
				if recA.Panicked || errA != nil || decA.Status.Code != 0 {
					return info, fmt.Errorf("%s: the valid call that was paused in mid-decompression while another call used the pool failed (panic=%v, %v, %+v) — earlier ops: %v", where, recA.Panicked, errA, statusOf(decA), c.Ops[:i])
				}
				for _, call := range log.Snapshot()[before:] {
					for _, g := range call.Received {
						okA := g == (prog.Obs{N: msg.N, T: msg.Text()}) || g == (prog.Obs{N: msg.N + 1000, T: msg.Text()})
						okB := g == (prog.Obs{N: m2.N, T: m2.Text()})
						if !okA && !okB {
							return info, fmt.Errorf("%s: overlapping calls: handler received %v which neither call sent — earlier ops: %v", where, g, c.Ops[:i])
						}
					}
				}
				continue
			}
			rec := memnet.Serve(h, "POST", prog.Procedure(prog.Client), req.Header, bytes.NewReader(body), memnet.ServeOpts{})
			if rec.Panicked {
				return info, fmt.Errorf("%s: panic %v", where, rec.PanicValue)
			}
			calls := log.Snapshot()[before:]
			if len(calls) != 1 {
				return info, fmt.Errorf("%s: handler ran %d times", where, len(calls))
			}
			got := calls[0].Received
			// whatever was delivered must be what was sent, in order
			want := []prog.Obs{{N: msg.N, T: msg.Text()}, {N: msg.N + 1000, T: msg.Text()}}
			for j, g := range got {
				if j >= 2 || g != want[j] {
					return info, fmt.Errorf("%s: handler received a message that was never sent: %v", where, g)
				}
			}
			dec, derr := refwire.DecodeResponse(op.Protocol, prog.Client, refwire.ContentType(op.Protocol, prog.Client, "proto"), &refwire.Response{Status: rec.Status, Header: rec.Header, Body: rec.Body, Trailer: rec.Trailer})
			if op.Corrupt == "" {
				if derr != nil || dec.Status.Code != 0 || len(got) != 2 {
					return info, fmt.Errorf("%s: a VALID compressed call failed (decode err %v, status %+v, received %d of 2) — earlier corrupt calls on the shared pools were: %v", where, derr, statusOf(dec), len(got), c.Ops[:i])
				}
			} else if op.Corrupt != "garbage" {
				if derr == nil && dec.Status.Code == 0 && len(got) == 2 {
					return info, fmt.Errorf("%s: corrupt compressed message was accepted", where)
				}
			}
			continue
		}
		// client side: scripted server-stream response with two compressed messages
		raw1 := refwire.EncodePing("proto", msg.N, msg.Text())
		raw2 := refwire.EncodePing("proto", msg.N+1000, msg.Text())
		rs := &refwire.RespSpec{Protocol: op.Protocol, Kind: prog.Server, ContentType: refwire.ContentType(op.Protocol, prog.Server, "proto"), Encoding: op.Alg}
		r, _ := refwire.BuildResponse(rs)
		var body []byte
		body = refwire.AppendFrame(body, refwire.FlagCompressed, comp.Compress(op.Alg, raw1))
		body = refwire.AppendFrame(body, refwire.FlagCompressed, corrupt(op.Corrupt, op.Alg, comp.Compress(op.Alg, raw2), raw2))
		body = append(body, r.Body...) // terminator produced by the reference builder
		holder.cur = memnet.NewScript(200, r.Header, bytes.NewReader(body), r.Trailer)
		res := prog.RunClientWith(context.Background(), clients[op.Protocol], prog.Server, &prog.ClientProg{Msgs: []prog.Msg{{N: 1}}}, nil)
		holder.cur.WaitRequest()
		want := []prog.Obs{{N: msg.N, T: msg.Text()}, {N: msg.N + 1000, T: msg.Text()}}
		for j, g := range res.Received {
			if j >= 2 || g != want[j] {
				return info, fmt.Errorf("%s: client received a message that was never sent: %v", where, g)
			}
		}
		if op.Corrupt == "" {
			if res.Err != nil || len(res.Received) != 2 {
				return info, fmt.Errorf("%s: a VALID compressed response failed (%v, received %d of 2) — earlier calls on the shared pools were: %v", where, res.Err, len(res.Received), c.Ops[:i])
			}
		} else if op.Corrupt != "garbage" {
			if res.Err == nil && len(res.Received) == 2 {
				return info, fmt.Errorf("%s: corrupt compressed response was accepted", where)
			}
		}
	}
	return info, nil
}

func statusOf(d *refwire.Decoded) any {
	if d == nil {
		return nil
	}
	return d.Status
}

type switchClient struct{ cur *memnet.Script }

func (s *switchClient) Do(r *http.Request) (*http.Response, error) { return s.cur.Do(r) }

func genHist(t *rapid.T) HistCase {
	n := rapid.IntRange(2, 12).Draw(t, "nops")
	var c HistCase
	for i := 0; i < n; i++ {
		op := Op{
			Side:     rapid.SampledFrom([]string{"handler", "client"}).Draw(t, "side"),
			Protocol: rapid.SampledFrom(prog.Protocols).Draw(t, "protocol"),
			Alg:      rapid.SampledFrom([]string{"gzip", "deflate", "zlib", "toy"}).Draw(t, "alg"),
			Size:     rapid.SampledFrom([]int{0, 10, 600, 5000}).Draw(t, "size"),
		}
		if rapid.Bool().Draw(t, "corruptP") {
			op.Corrupt = rapid.SampledFrom([]string{"header", "truncate", "checksum", "garbage", "wrongalg", "oversize"}).Draw(t, "corrupt")
		} else if op.Side == "handler" {
			op.Overlap = rapid.Bool().Draw(t, "overlap")
		}
		c.Ops = append(c.Ops, op)
	}
	return c
}

var specHist = pbt.Spec[HistCase]{
	Prop: "C08", Name: "pool-history", Gen: genHist, Check: checkHist,
	Rule: "histories of 2..12 calls on ONE shared handler (synchronous ServeHTTP) and ONE shared client set (scripted responses), GOMAXPROCS=1 so pooled (de)compressors are really reused: each call carries two compressed messages, the second either valid or corrupt (mangled header, truncated stream, bad checksum, trailing garbage, compressed with another algorithm than declared, or valid but decompressing beyond the configured read limit) in gzip/deflate/zlib or a stateful toy codec that decodes garbage unless Reset is honoured; valid handler-side calls may be run as an overlapping pair (the second runs completely while the first is paused inside its decompressor, so a (de)compressor that sits in the pool twice is handed to both); oracle: every valid call succeeds exactly as on fresh pools, no side ever receives a message that was not sent, corrupt calls (except trailing garbage) are not accepted; non-trivial = a valid call directly follows a corrupt one on the same side and algorithm",
}

func TestPoolHistory(t *testing.T) { pbt.Run(t, specHist) }

func TestReplay(t *testing.T) {
	pbt.ReplayMain(t, pbt.Replayer(specH), pbt.Replayer(specC), pbt.Replayer(specHist))
}
