package c03

import (
	"bytes"
	"context"
	"fmt"
	"net/http"
	"reflect"
	"sort"
	"strings"
	"testing"

	"github.com/bufbuild/connect-go/verif/memnet"
	"github.com/bufbuild/connect-go/verif/pbt"
	"github.com/bufbuild/connect-go/verif/prog"
	"github.com/bufbuild/connect-go/verif/refwire"
	"pgregory.net/rapid"
)

// BodySpec describes a valid body (response or request) to build with refwire.
type BodySpec struct {
	Protocol string        `json:"protocol"`
	Kind     string        `json:"kind"`
	Codec    string        `json:"codec"`
	Msgs     []prog.Msg    `json:"msgs"`
	Encoding string        `json:"encoding,omitempty"`
	Compress []bool        `json:"compress,omitempty"`
	ErrCode  uint32        `json:"err_code,omitempty"`
	ErrMsg   string        `json:"err_msg,omitempty"`
	Trailer  []prog.KV     `json:"trailer,omitempty"`
	Knobs    refwire.Knobs `json:"knobs"`
	// Page: instead of a protocol response, an HTTP-level error answer such as
	// a proxy or net/http produces (non-200 status, text or JSON body)
	Page *PageSpec `json:"page,omitempty"`
}

type PageSpec struct {
	Status      int    `json:"status"`
	ContentType string `json:"content_type"`
	Text        string `json:"text"`
}

// Case is a body plus a segmentation.
type Case struct {
	Dir         string   `json:"dir"` // response | request
	Body        BodySpec `json:"body"`
	Cuts        []int    `json:"cuts"`
	EOFWithLast bool     `json:"eof_with_last"`
	// ContentLength: the request announces its (true) body size, as clients
	// with a fixed-size body do
	ContentLength bool `json:"content_length,omitempty"`
}

func encMsgs(b BodySpec) [][]byte {
	var out [][]byte
	for _, m := range b.Msgs {
		out = append(out, refwire.EncodePing(b.Codec, m.N, m.Text()))
	}
	return out
}

func buildResponse(b BodySpec) (*refwire.Response, error) {
	if b.Page != nil {
		h := http.Header{}
		if b.Page.ContentType != "" {
			h.Set("Content-Type", b.Page.ContentType)
		}
		return &refwire.Response{Status: b.Page.Status, Header: h, Body: []byte(b.Page.Text), Trailer: http.Header{}}, nil
	}
	return refwire.BuildResponse(&refwire.RespSpec{
		Protocol: b.Protocol, Kind: b.Kind, ContentType: refwire.ContentType(b.Protocol, b.Kind, b.Codec),
		Msgs: encMsgs(b), Encoding: b.Encoding, CompressMsg: b.Compress,
		Status:  refwire.Status{Code: b.ErrCode, Message: b.ErrMsg},
		Trailer: prog.KVMap(b.Trailer), Knobs: b.Knobs,
	})
}

func buildRequest(b BodySpec) *refwire.Request {
	return refwire.BuildRequest(&refwire.ReqSpec{
		Protocol: b.Protocol, Kind: b.Kind, Codec: b.Codec, Msgs: encMsgs(b),
		Encoding: b.Encoding, CompressMsg: b.Compress, Knobs: b.Knobs,
	})
}

// Outcome is everything a receiver can observe.
type Outcome struct {
	Msgs    []prog.Obs
	Err     string
	Clean   bool
	Header  http.Header
	Trailer http.Header
	Extra   string
}

func errKey(v *prog.ErrView) string {
	if v == nil {
		return ""
	}
	keys := make([]string, 0, len(v.Meta))
	for k := range v.Meta {
		keys = append(keys, k)
	}
	sort.Strings(keys)
	meta := ""
	for _, k := range keys {
		meta += fmt.Sprintf("%s=%q;", k, v.Meta[k])
	}
	return fmt.Sprintf("code=%d msg=%q details=%d eof=%v meta=%s", v.Code, v.Msg, len(v.Details), v.WrapsEOF, meta)
}

func clientOutcome(b BodySpec, resp *refwire.Response, cuts []int, eofWithLast bool) Outcome {
	body := &memnet.ChunkReader{Data: resp.Body, Cuts: cuts, EOFWithLast: eofWithLast}
	sc := memnet.NewScript(resp.Status, resp.Header, body, resp.Trailer)
	cfg := prog.Config{Protocol: b.Protocol, Codec: b.Codec, Kind: b.Kind, CAccept: []string{"deflate", "zlib", "toy"}}
	cp := &prog.ClientProg{Msgs: []prog.Msg{{N: 1}}}
	if b.Kind == prog.Bidi {
		cp.Ops = []prog.COp{{Op: "send", Msg: &prog.Msg{N: 1}}, {Op: "closereq"}, {Op: "recvall"}, {Op: "closeresp"}}
	}
	ctx, cancel := context.WithCancel(context.Background())
	defer cancel()
	res := prog.RunClient(ctx, sc, cfg, cp, cancel)
	sc.WaitRequest()
	return Outcome{Msgs: res.Received, Err: errKey(res.Err), Clean: res.CleanEnd, Header: res.Header, Trailer: res.Trailer}
}

func handlerOutcome(b BodySpec, req *refwire.Request, cuts []int, eofWithLast bool, contentLength ...bool) Outcome {
	log := &prog.HLog{}
	hp := &prog.HandlerProg{Drain: true, Resp: &prog.Msg{N: 7}}
	h := prog.NewHandler(b.Kind, hp, log, prog.Config{HComp: []string{"deflate", "zlib", "toy"}}.HandlerOptions()...)
	body := &memnet.ChunkReader{Data: req.Body, Cuts: cuts, EOFWithLast: eofWithLast}
	opts := memnet.ServeOpts{}
	if len(contentLength) > 0 && contentLength[0] {
		opts.HaveContentLength, opts.ContentLength = true, int64(len(req.Body))
	}
	rec := memnet.Serve(h, "POST", prog.Procedure(b.Kind), req.Header.Clone(), body, opts)
	o := Outcome{}
	calls := log.Snapshot()
	if len(calls) == 1 {
		o.Msgs = calls[0].Received
		o.Clean = calls[0].RecvEnd == "eof" || calls[0].RecvEnd == ""
		o.Err = errKey(calls[0].RecvErr)
	}
	o.Extra = fmt.Sprintf("calls=%d status=%d body=%x trailer=%v panicked=%v", len(calls), rec.Status, rec.Body, rec.Trailer, rec.Panicked)
	o.Header = rec.Header
	return o
}

func diff(a, b Outcome) string {
	if !reflect.DeepEqual(a.Msgs, b.Msgs) {
		return fmt.Sprintf("messages differ: one piece %v, segmented %v", a.Msgs, b.Msgs)
	}
	if a.Err != b.Err {
		return fmt.Sprintf("error differs: one piece [%s], segmented [%s]", a.Err, b.Err)
	}
	if a.Clean != b.Clean {
		return fmt.Sprintf("clean-end differs: one piece %v, segmented %v", a.Clean, b.Clean)
	}
	if !reflect.DeepEqual(a.Header, b.Header) || !reflect.DeepEqual(a.Trailer, b.Trailer) {
		return fmt.Sprintf("metadata differs: one piece %v / %v, segmented %v / %v", a.Header, a.Trailer, b.Header, b.Trailer)
	}
	if a.Extra != b.Extra {
		return fmt.Sprintf("response differs: one piece %s, segmented %s", a.Extra, b.Extra)
	}
	return ""
}

// frameBoundaries returns the offsets at which frames start/end.
func prefixRanges(body []byte, unaryConnect bool) (inPrefix func(int) bool, boundaries map[int]bool) {
	boundaries = map[int]bool{0: true, len(body): true}
	type rng struct{ lo, hi int }
	var ps []rng
	if !unaryConnect {
		off := 0
		for off+5 <= len(body) {
			n := int(body[off+1])<<24 | int(body[off+2])<<16 | int(body[off+3])<<8 | int(body[off+4])
			ps = append(ps, rng{off, off + 5})
			boundaries[off] = true
			boundaries[off+5] = true
			off += 5 + n
			if off > len(body) {
				break
			}
			boundaries[off] = true
		}
	}
	return func(c int) bool {
		for _, p := range ps {
			if c > p.lo && c < p.hi {
				return true
			}
		}
		return false
	}, boundaries
}

func checkCase(tt *testing.T, c Case) (pbt.Info, error) {
	var info pbt.Info
	var data []byte
	var one, seg Outcome
	unaryConnect := c.Body.Protocol == "connect" && c.Body.Kind == prog.Unary
	if c.Dir == "response" {
		resp, err := buildResponse(c.Body)
		if err != nil {
			return info, nil // not a buildable body: skip (counted as trivial)
		}
		data = resp.Body
		unaryConnect = (unaryConnect && resp.Status == 200) || c.Body.Page != nil
		one = clientOutcome(c.Body, resp, nil, false)
		seg = clientOutcome(c.Body, resp, c.Cuts, c.EOFWithLast)
		// the one-piece outcome must be what the reference encoder put in
		if c.Body.Page != nil {
			info.Label("http-error-page")
			if one.Clean || one.Err == "" {
				return info, fmt.Errorf("HTTP %d %q answer to a %s %s call was reported as success", c.Body.Page.Status, c.Body.Page.ContentType, c.Body.Protocol, c.Body.Kind)
			}
		} else if c.Body.ErrCode == 0 {
			if len(one.Msgs) != len(c.Body.Msgs) || !one.Clean || one.Err != "" {
				return info, fmt.Errorf("one-piece delivery of a valid %s %s response did not decode to its %d messages: got %v clean=%v err=[%s]", c.Body.Protocol, c.Body.Kind, len(c.Body.Msgs), one.Msgs, one.Clean, one.Err)
			}
			for i := range one.Msgs {
				if !one.Msgs[i].Equal(c.Body.Msgs[i]) {
					return info, fmt.Errorf("one-piece delivery: message %d differs", i)
				}
			}
		}
	} else {
		req := buildRequest(c.Body)
		data = req.Body
		one = handlerOutcome(c.Body, req, nil, false, c.ContentLength)
		seg = handlerOutcome(c.Body, req, c.Cuts, c.EOFWithLast, c.ContentLength)
		if c.ContentLength {
			info.Label("request-announces-content-length")
		}
		if len(one.Msgs) != len(c.Body.Msgs) {
			return info, fmt.Errorf("one-piece delivery of a valid %s %s request did not decode to its %d messages: got %v (%s)", c.Body.Protocol, c.Body.Kind, len(c.Body.Msgs), one.Msgs, one.Extra)
		}
	}
	inPrefix, bounds := prefixRanges(data, unaryConnect)
	info.Label("dir:" + c.Dir)
	info.Label("proto:" + c.Body.Protocol)
	for _, cut := range c.Cuts {
		if cut <= 0 || cut >= len(data) {
			continue
		}
		if inPrefix(cut) {
			info.Label("cut-inside-prefix")
			info.NonTrivial = true
		} else if !bounds[cut] {
			info.Label("cut-inside-payload")
			info.NonTrivial = true
		}
	}
	if c.EOFWithLast {
		info.Label("eof-with-last-bytes")
	}
	if d := diff(one, seg); d != "" {
		return info, fmt.Errorf("%s %s %s %s body of %d bytes, cuts %v, eofWithLast=%v: %s", c.Dir, c.Body.Protocol, c.Body.Kind, c.Body.Codec, len(data), c.Cuts, c.EOFWithLast, d)
	}
	return info, nil
}

func bodyGen(t *rapid.T, dir string) BodySpec {
	b := BodySpec{
		Protocol: rapid.SampledFrom(prog.Protocols).Draw(t, "protocol"),
		Kind:     rapid.SampledFrom(prog.Kinds).Draw(t, "kind"),
		Codec:    rapid.SampledFrom(prog.Codecs).Draw(t, "codec"),
	}
	n := 1
	multi := (dir == "response" && (b.Kind == prog.Server || b.Kind == prog.Bidi)) || (dir == "request" && (b.Kind == prog.Client || b.Kind == prog.Bidi))
	if multi {
		n = rapid.IntRange(0, 4).Draw(t, "n")
	}
	b.Encoding = rapid.SampledFrom([]string{"", "", "gzip", "deflate", "zlib", "toy"}).Draw(t, "encoding")
	for i := 0; i < n; i++ {
		m := prog.Msg{}
		if rapid.IntRange(0, 3).Draw(t, "nonzero") > 0 {
			m.N = rapid.Int64Range(-5, 1000).Draw(t, "n")
			m.TLen = rapid.SampledFrom([]int{0, 1, 3, 20, 300, 5000}).Draw(t, "tlen")
			m.TSeed = rapid.IntRange(0, 1999).Draw(t, "tseed")
		}
		b.Msgs = append(b.Msgs, m)
		b.Compress = append(b.Compress, b.Encoding != "" && rapid.Bool().Draw(t, "compress"))
	}
	if dir == "response" {
		if rapid.IntRange(0, 3).Draw(t, "fail") == 0 {
			b.ErrCode = uint32(rapid.IntRange(1, 16).Draw(t, "code"))
			b.ErrMsg = rapid.SampledFrom([]string{"", "boom", "percent % and ünïcode", "line\nbreak"}).Draw(t, "errmsg")
			if b.Protocol == "connect" && b.Kind == prog.Unary {
				b.Msgs, b.Compress = nil, nil
			}
			if !multi {
				b.Msgs, b.Compress = nil, nil
			}
		}
		nt := rapid.IntRange(0, 2).Draw(t, "ntrailer")
		for i := 0; i < nt; i++ {
			b.Trailer = append(b.Trailer, prog.KV{K: fmt.Sprintf("X-T%d", i), V: rapid.StringMatching("[a-z0-9 ,;]{0,12}[a-z0-9]").Draw(t, "tv")})
		}
		b.Knobs = refwire.Knobs{
			LowerHex: rapid.Bool().Draw(t, "lowerhex"), PadBase64: rapid.Bool().Draw(t, "pad"),
			LowerKeys: rapid.Bool().Draw(t, "lowerkeys"), FinalCRLF: rapid.Bool().Draw(t, "crlf"),
		}
	}
	return b
}

func cutsGen(t *rapid.T, n int, bounds []int) ([]int, bool) {
	eof := rapid.Bool().Draw(t, "eofWithLast")
	if n <= 1 {
		return nil, eof
	}
	var cuts []int
	switch rapid.SampledFrom([]string{"bytewise", "single", "prefix", "random", "pow2"}).Draw(t, "cutmode") {
	case "bytewise":
		for i := 1; i < n; i++ {
			cuts = append(cuts, i)
		}
	case "single":
		cuts = []int{rapid.IntRange(1, n-1).Draw(t, "cut")}
	case "prefix":
		// cuts around frame starts
		if len(bounds) > 0 {
			b := rapid.SampledFrom(bounds).Draw(t, "bound")
			k := rapid.IntRange(1, 2).Draw(t, "ncuts")
			for i := 0; i < k; i++ {
				c := b + rapid.IntRange(-1, 6).Draw(t, "delta")
				if c > 0 && c < n {
					cuts = append(cuts, c)
				}
			}
		}
	case "pow2":
		for c := 1; c < n; c *= 2 {
			cuts = append(cuts, c)
		}
	default:
		k := rapid.IntRange(1, 8).Draw(t, "ncuts")
		for i := 0; i < k; i++ {
			cuts = append(cuts, rapid.IntRange(1, n-1).Draw(t, "cut"))
		}
	}
	sort.Ints(cuts)
	out := cuts[:0]
	for i, c := range cuts {
		if i == 0 || c != cuts[i-1] {
			out = append(out, c)
		}
	}
	return out, eof
}

var pageTexts = []string{
	"no healthy upstream", "upstream connect error or disconnect/reset before headers. reset reason: connection failure\n",
	"404 page not found\n", "<html><body><h1>502 Bad Gateway</h1></body></html>\r\n", "line one\nline two\nline three\n", "x",
	`{"code":"unavailable","message":"try later"}`, `{"error":"not connect"}`, strings.Repeat("long text ", 120),
	"{\"code\":\"unavailable\",\"message\":\"try later\"}\n", "{\"code\":\"not_found\",\"message\":\"m\",\"details\":[]}\r\n  ", " {\"code\":\"aborted\"}",
}

func gen(t *rapid.T) Case {
	c := Case{Dir: rapid.SampledFrom([]string{"response", "request"}).Draw(t, "dir")}
	c.Body = bodyGen(t, c.Dir)
	if c.Dir == "response" && rapid.IntRange(0, 7).Draw(t, "page") == 0 {
		c.Body.Page = &PageSpec{
			Status:      rapid.SampledFrom([]int{400, 401, 403, 404, 429, 500, 502, 503, 504}).Draw(t, "pageStatus"),
			ContentType: rapid.SampledFrom([]string{"text/plain", "text/plain; charset=utf-8", "text/html", "application/json", ""}).Draw(t, "pageCT"),
			Text:        rapid.SampledFrom(pageTexts).Draw(t, "pageText"),
		}
	}
	var data []byte
	if c.Dir == "response" {
		resp, err := buildResponse(c.Body)
		if err != nil {
			return c
		}
		data = resp.Body
	} else {
		data = buildRequest(c.Body).Body
	}
	_, bm := prefixRanges(data, c.Body.Protocol == "connect" && c.Body.Kind == prog.Unary)
	var bounds []int
	for b := range bm {
		bounds = append(bounds, b)
	}
	sort.Ints(bounds)
	c.Cuts, c.EOFWithLast = cutsGen(t, len(data), bounds)
	c.ContentLength = c.Dir == "request" && rapid.Bool().Draw(t, "contentLength")
	return c
}

var spec = pbt.Spec[Case]{
	Prop: "C03", Name: "segmentation",
	Gen: gen, Check: checkCase,
	Rule: "valid response bodies (delivered to a client through a scripted transport) and request bodies (delivered to a handler through a synchronous ServeHTTP) built by the independent reference encoder for every protocol × kind × codec × compression; each is delivered once in one piece and once split at generated cut sets (byte-wise, single cut, cuts around envelope prefixes, powers of two, random) with EOF either with the last bytes or on a separate read; oracle: identical outcome (messages, error code/message/metadata, headers, trailers, handler-observed messages, response bytes); non-trivial = at least one cut strictly inside a 5-byte envelope prefix or inside a payload",
}

func TestSegmentation(t *testing.T) { pbt.Run(t, spec) }

// TestExhaustive enumerates all 2^(n-1) segmentations of small bodies.
func TestExhaustive(t *testing.T) {
	defer pbt.Flush()
	limit := 13
	if pbt.Thorough() {
		limit = 16
	}
	rule := fmt.Sprintf("all 2^(n-1) segmentations × {EOF with last bytes, EOF separately} of small valid bodies (n ≤ %d bytes) for each protocol/direction; non-trivial = a cut inside a prefix or payload", limit)
	var bodies []Case
	one := []prog.Msg{{N: 5}}
	for _, p := range prog.Protocols {
		bodies = append(bodies,
			Case{Dir: "response", Body: BodySpec{Protocol: p, Kind: prog.Server, Codec: "proto", Msgs: one}},
			Case{Dir: "response", Body: BodySpec{Protocol: p, Kind: prog.Server, Codec: "proto", Msgs: []prog.Msg{{}}}},
			Case{Dir: "response", Body: BodySpec{Protocol: p, Kind: prog.Unary, Codec: "proto", Msgs: one}},
			Case{Dir: "request", Body: BodySpec{Protocol: p, Kind: prog.Client, Codec: "proto", Msgs: []prog.Msg{{N: 5}, {}}}},
			Case{Dir: "request", Body: BodySpec{Protocol: p, Kind: prog.Unary, Codec: "proto", Msgs: one}},
		)
	}
	total, nt := 0, 0
	var samples []any
	for _, base := range bodies {
		var data []byte
		if base.Dir == "response" {
			resp, err := buildResponse(base.Body)
			if err != nil {
				t.Fatalf("HARNESS: %v", err)
			}
			data = resp.Body
		} else {
			data = buildRequest(base.Body).Body
		}
		n := len(data)
		if n > limit || n < 2 {
			if n > limit {
				continue
			}
		}
		for mask := 0; mask < 1<<max(n-1, 0); mask++ {
			var cuts []int
			for i := 1; i < n; i++ {
				if mask&(1<<(i-1)) != 0 {
					cuts = append(cuts, i)
				}
			}
			for _, eof := range []bool{false, true} {
				c := base
				c.Cuts, c.EOFWithLast = cuts, eof
				info, err := checkCase(t, c)
				total++
				if info.NonTrivial {
					nt++
				}
				if err != nil {
					path := pbt.SaveReplay(spec, c, err)
					fmt.Printf("VIOLATION property=C03 replay=%s\n", path)
					t.Fatalf("C03/exhaustive violated: %v", err)
				}
				if len(samples) < 3 && info.NonTrivial && mask%37 == 5 {
					samples = append(samples, c)
				}
			}
		}
	}
	pbt.RecordBulk("C03", "exhaustive", rule, total, nt, true, samples...)
	_ = bytes.MinRead
}

func TestReplay(t *testing.T) { pbt.ReplayMain(t, pbt.Replayer(spec)) }
