package c17

import (
	"bytes"
	"fmt"
	"go/ast"
	"go/importer"
	"go/parser"
	"go/token"
	"go/types"
	"io"
	"os"
	"os/exec"
	"path/filepath"
	"strconv"
	"strings"
	"sync"
	"testing"

	pingv1 "github.com/bufbuild/connect-go/internal/gen/connect/ping/v1"
	"github.com/bufbuild/connect-go/verif/pbt"
	"google.golang.org/protobuf/proto"
	"google.golang.org/protobuf/reflect/protodesc"
	"google.golang.org/protobuf/types/descriptorpb"
	"google.golang.org/protobuf/types/pluginpb"
	"pgregory.net/rapid"
)

// ---------- tools (built once per process from /repo's working tree) ----------

var (
	toolsOnce   sync.Once
	toolsErr    error
	pluginBin   string
	protocGoBin string
	exportMap   map[string]string
)

func root() string {
	if r := os.Getenv("VERIF_ROOT"); r != "" {
		return r
	}
	return "/verif"
}

func repoDir() string {
	if r := os.Getenv("VERIF_REPO"); r != "" {
		return r
	}
	return "/repo"
}

func goCmd(dir string, args ...string) *exec.Cmd {
	cmd := exec.Command("go1.26.8", args...)
	cmd.Dir = dir
	cmd.Env = append(os.Environ(), "GOFLAGS=-mod=mod", "GOPROXY=off", "GOSUMDB=off", "GOTOOLCHAIN=local")
	return cmd
}

func tools() error {
	toolsOnce.Do(func() {
		dir := filepath.Join(root(), ".build", fmt.Sprintf("c17-%d", os.Getpid()))
		if err := os.MkdirAll(dir, 0o755); err != nil {
			toolsErr = err
			return
		}
		pluginBin = filepath.Join(dir, "protoc-gen-connect-go")
		protocGoBin = filepath.Join(dir, "protoc-gen-go")
		harness := filepath.Join(root(), "harness")
		// the plugin is built through the harness module, whose replace points at /repo
		if out, err := goCmd(harness, "build", "-o", pluginBin, "github.com/bufbuild/connect-go/cmd/protoc-gen-connect-go").CombinedOutput(); err != nil {
			toolsErr = fmt.Errorf("build plugin: %v\n%s", err, out)
			return
		}
		if out, err := goCmd(harness, "build", "-o", protocGoBin, "google.golang.org/protobuf/cmd/protoc-gen-go").CombinedOutput(); err != nil {
			toolsErr = fmt.Errorf("build protoc-gen-go: %v\n%s", err, out)
			return
		}
		out, err := goCmd(harness, "list", "-export", "-deps", "-f", "{{if .Export}}{{.ImportPath}}={{.Export}}{{end}}",
			"github.com/bufbuild/connect-go", "google.golang.org/protobuf/runtime/protoimpl", "google.golang.org/protobuf/reflect/protoreflect",
			"google.golang.org/protobuf/types/known/durationpb", "google.golang.org/protobuf/types/known/emptypb", "net/http", "context", "errors", "strings", "reflect", "sync").Output()
		if err != nil {
			toolsErr = fmt.Errorf("go list -export: %v", err)
			return
		}
		exportMap = map[string]string{}
		for _, line := range strings.Split(string(out), "\n") {
			if i := strings.IndexByte(line, '='); i > 0 {
				exportMap[line[:i]] = line[i+1:]
			}
		}
	})
	return toolsErr
}

func TestMain(m *testing.M) {
	code := m.Run()
	if pluginBin != "" {
		_ = os.RemoveAll(filepath.Dir(pluginBin))
	}
	os.Exit(code)
}

func runPlugin(bin string, req *pluginpb.CodeGeneratorRequest) (*pluginpb.CodeGeneratorResponse, error) {
	in, err := proto.Marshal(req)
	if err != nil {
		return nil, err
	}
	cmd := exec.Command(bin)
	cmd.Stdin = bytes.NewReader(in)
	var stdout, stderr bytes.Buffer
	cmd.Stdout, cmd.Stderr = &stdout, &stderr
	if err := cmd.Run(); err != nil {
		return nil, fmt.Errorf("plugin exited with %v: %s", err, stderr.String())
	}
	resp := &pluginpb.CodeGeneratorResponse{}
	if err := proto.Unmarshal(stdout.Bytes(), resp); err != nil {
		return nil, fmt.Errorf("plugin wrote an undecodable response: %v", err)
	}
	return resp, nil
}

// ---------- type checking against export data ----------

type mapImporter struct {
	base  types.Importer
	extra map[string]*types.Package
}

func (m *mapImporter) Import(path string) (*types.Package, error) {
	if p, ok := m.extra[path]; ok {
		return p, nil
	}
	return m.base.Import(path)
}

func newImporter(fset *token.FileSet) *mapImporter {
	lookup := func(path string) (io.ReadCloser, error) {
		f, ok := exportMap[path]
		if !ok {
			return nil, fmt.Errorf("no export data for %q", path)
		}
		return os.Open(f)
	}
	return &mapImporter{base: importer.ForCompiler(fset, "gc", lookup), extra: map[string]*types.Package{}}
}

func typeCheck(fset *token.FileSet, imp *mapImporter, path, filename, src string) (*ast.File, *types.Package, error) {
	f, err := parser.ParseFile(fset, filename, src, parser.ParseComments)
	if err != nil {
		return nil, nil, fmt.Errorf("does not parse: %v", err)
	}
	conf := types.Config{Importer: imp}
	pkg, err := conf.Check(path, fset, []*ast.File{f}, nil)
	if err != nil {
		return f, nil, fmt.Errorf("does not type-check: %v", err)
	}
	imp.extra[path] = pkg
	return f, pkg, nil
}

// ---------- the check ----------

type generated struct {
	connectName string
	connectSrc  string
	twinName    string
	twinSrc     string
	pbFiles     map[string]string
}

func generate(f FileSpec) (*generated, []*descriptorpb.FileDescriptorProto, error) {
	files, err := f.Build()
	if err != nil {
		return nil, nil, nil // invalid descriptor: outside the domain
	}
	all := append(WKTFiles(), files...)
	toGenerate := []string{f.protoName()}
	if f.Twin {
		toGenerate = append(toGenerate, f.TwinSpec().protoName())
	}
	req := &pluginpb.CodeGeneratorRequest{
		FileToGenerate:  toGenerate,
		ProtoFile:       all,
		CompilerVersion: &pluginpb.Version{Major: proto.Int32(3), Minor: proto.Int32(21), Patch: proto.Int32(0)},
	}
	if p := f.parameter(); p != "" {
		req.Parameter = proto.String(p)
	}
	resp, err := runPlugin(pluginBin, req)
	if err != nil {
		return nil, files, fmt.Errorf("code generator failed: %v", err)
	}
	if resp.Error != nil {
		return nil, files, fmt.Errorf("code generator reported an error for a valid file: %s", resp.GetError())
	}
	resp2, err := runPlugin(pluginBin, req)
	if err != nil || !proto.Equal(resp, resp2) {
		return nil, files, fmt.Errorf("two runs of the generator on the same request differ (or the second failed: %v)", err)
	}
	g := &generated{pbFiles: map[string]string{}}
	if len(f.Services) == 0 {
		if len(resp.File) != 0 {
			return nil, files, fmt.Errorf("file without services produced output %q", resp.File[0].GetName())
		}
		return g, files, nil
	}
	if len(resp.File) != len(toGenerate) {
		return nil, files, fmt.Errorf("generator emitted %d files for %d inputs with services", len(resp.File), len(toGenerate))
	}
	g.connectName, g.connectSrc = resp.File[0].GetName(), resp.File[0].GetContent()
	if f.Twin {
		g.twinName, g.twinSrc = resp.File[1].GetName(), resp.File[1].GetContent()
	}
	// companion .pb.go files
	toGen := append([]string{}, toGenerate...)
	if f.Imported {
		toGen = append(toGen, f.depProto())
	}
	req2 := proto.Clone(req).(*pluginpb.CodeGeneratorRequest)
	req2.FileToGenerate = toGen
	presp, err := runPlugin(protocGoBin, req2)
	if err != nil || presp.Error != nil {
		return nil, files, fmt.Errorf("HARNESS: protoc-gen-go failed: %v %s", err, presp.GetError())
	}
	for _, pf := range presp.File {
		g.pbFiles[pf.GetName()] = pf.GetContent()
	}
	return g, files, nil
}

func kindOf(m MethodSpec) string {
	switch {
	case m.ClientStream && m.ServerStream:
		return "Bidi"
	case m.ClientStream:
		return "Client"
	case m.ServerStream:
		return "Server"
	}
	return "Unary"
}

func strLit(e ast.Expr) (string, bool) {
	// "lit" or baseURL + "lit"
	if b, ok := e.(*ast.BinaryExpr); ok {
		e = b.Y
	}
	if l, ok := e.(*ast.BasicLit); ok && l.Kind == token.STRING {
		s, err := strconv.Unquote(l.Value)
		return s, err == nil
	}
	return "", false
}

func selName(e ast.Expr) string {
	switch x := e.(type) {
	case *ast.SelectorExpr:
		return x.Sel.Name
	case *ast.IndexListExpr:
		return selName(x.X)
	case *ast.IndexExpr:
		return selName(x.X)
	case *ast.Ident:
		return x.Name
	}
	return ""
}

// staticRouting inspects the generated AST: every method must be registered,
// constructed and labelled with the canonical procedure path, using the
// constructor / call matching its streaming kind.
func staticRouting(f FileSpec, file *ast.File) error {
	funcs := map[string]*ast.FuncDecl{}
	for _, d := range file.Decls {
		if fd, ok := d.(*ast.FuncDecl); ok {
			name := fd.Name.Name
			if fd.Recv != nil && len(fd.Recv.List) == 1 {
				t := fd.Recv.List[0].Type
				if s, ok := t.(*ast.StarExpr); ok {
					t = s.X
				}
				name = selName(t) + "." + name
			}
			funcs[name] = fd
		}
	}
	for _, s := range f.Services {
		g := GoCamelCase(s.Name)
		fq := f.fqService(s)
		// handler constructor
		hc := funcs["New"+g+"Handler"]
		if hc == nil {
			return fmt.Errorf("no New%sHandler in the generated code", g)
		}
		type reg struct{ mount, proc, ctor, impl string }
		var regs []reg
		var mountPrefix string
		ast.Inspect(hc.Body, func(n ast.Node) bool {
			switch x := n.(type) {
			case *ast.CallExpr:
				if selName(x.Fun) == "Handle" && len(x.Args) == 2 {
					mount, _ := strLit(x.Args[0])
					if inner, ok := x.Args[1].(*ast.CallExpr); ok && len(inner.Args) >= 2 {
						proc, _ := strLit(inner.Args[0])
						regs = append(regs, reg{mount: mount, proc: proc, ctor: selName(inner.Fun), impl: selName(inner.Args[1])})
					}
				}
			case *ast.ReturnStmt:
				if len(x.Results) == 2 {
					mountPrefix, _ = strLit(x.Results[0])
				}
			}
			return true
		})
		if want := "/" + fq + "/"; mountPrefix != want {
			return fmt.Errorf("New%sHandler returns mount prefix %q, canonical is %q", g, mountPrefix, want)
		}
		if len(regs) != len(s.Methods) {
			return fmt.Errorf("New%sHandler registers %d handlers for %d methods", g, len(regs), len(s.Methods))
		}
		// client constructor
		cc := funcs["New"+g+"Client"]
		if cc == nil {
			return fmt.Errorf("no New%sClient in the generated code", g)
		}
		clientPaths := map[string]string{}
		implType := "" // the unexported implementation type the constructor returns (&xClient{…})
		ast.Inspect(cc.Body, func(n ast.Node) bool {
			if cl, ok := n.(*ast.CompositeLit); ok && implType == "" {
				if id, ok := cl.Type.(*ast.Ident); ok {
					implType = id.Name
				}
			}
			if kv, ok := n.(*ast.KeyValueExpr); ok {
				if call, ok := kv.Value.(*ast.CallExpr); ok && selName(call.Fun) == "NewClient" && len(call.Args) >= 2 {
					p, _ := strLit(call.Args[1])
					clientPaths[selName(kv.Key)] = p
				}
			}
			return true
		})
		for i, m := range s.Methods {
			gm := GoCamelCase(m.Name)
			want := "/" + fq + "/" + m.Name
			r := regs[i]
			if r.mount != want || r.proc != want {
				return fmt.Errorf("method %s.%s: handler mounted at %q with Spec procedure %q, canonical is %q", fq, m.Name, r.mount, r.proc, want)
			}
			wantCtor := "New" + kindOf(m) + "StreamHandler"
			if kindOf(m) == "Unary" {
				wantCtor = "NewUnaryHandler"
			}
			if r.ctor != wantCtor {
				return fmt.Errorf("method %s.%s (%s) is registered with connect.%s, want connect.%s", fq, m.Name, kindOf(m), r.ctor, wantCtor)
			}
			if r.impl != gm {
				return fmt.Errorf("method %s.%s is served by svc.%s, want svc.%s", fq, m.Name, r.impl, gm)
			}
			// client method calls the matching Call*
			var cm *ast.FuncDecl
			for name, fd := range funcs {
				recv, meth, ok := strings.Cut(name, ".")
				// methods of the implementation type the constructor returns
				// (its spelling is the generator's business)
				if ok && meth == gm && recv == implType {
					cm = fd
				}
			}
			if cm == nil {
				return fmt.Errorf("no client method %s.%s (implementation type returned by New%sClient)", implType, gm, g)
			}
			wantCall := "Call" + kindOf(m) + "Stream"
			if kindOf(m) == "Unary" {
				wantCall = "CallUnary"
			}
			gotCall, field := "", ""
			ast.Inspect(cm.Body, func(n ast.Node) bool {
				if c, ok := n.(*ast.CallExpr); ok && strings.HasPrefix(selName(c.Fun), "Call") {
					gotCall = selName(c.Fun)
					// c.<field>.CallXxx(...): the client the method delegates to
					if outer, ok := c.Fun.(*ast.SelectorExpr); ok {
						if inner, ok := outer.X.(*ast.SelectorExpr); ok {
							field = inner.Sel.Name
						}
					}
				}
				return true
			})
			if gotCall != wantCall {
				return fmt.Errorf("client method %s.%s calls %s, want %s", fq, m.Name, gotCall, wantCall)
			}
			// … and that client was constructed with the canonical path
			if found, ok := clientPaths[field]; !ok || found != want {
				return fmt.Errorf("method %s.%s: the client method delegates to field %q, which is constructed with path %q (fields %v), canonical is %q", fq, m.Name, field, found, clientPaths, want)
			}
		}
	}
	return nil
}

func check(tt *testing.T, f FileSpec) (pbt.Info, error) {
	var info pbt.Info
	if err := tools(); err != nil {
		tt.Fatalf("HARNESS: %v", err)
	}
	if p := f.goNameProblems(); p != "" {
		info.Label("discarded-go-name-collision")
		return info, nil
	}
	g, files, err := generate(f)
	if files == nil && err == nil {
		info.Label("discarded-invalid-descriptor")
		return info, nil
	}
	kinds := map[string]bool{}
	odd := false
	nm := 0
	for _, s := range f.Services {
		if isOddName(s.Name) {
			odd = true
		}
		for _, m := range s.Methods {
			kinds[kindOf(m)] = true
			nm++
			if isOddName(m.Name) {
				odd = true
			}
		}
	}
	if f.Package == "" {
		info.Label("no-package")
	}
	if odd {
		info.Label("keyword-or-snake-case-name")
	}
	if f.Imported {
		info.Label("imported-message-type")
	}
	if len(f.Services) == 0 {
		info.Label("no-services")
	}
	info.Label("paths:" + f.PathsMode)
	info.NonTrivial = (nm >= 2 && len(kinds) >= 2) || odd || f.Package == "" || f.Imported
	where := fmt.Sprintf("file %+v", f)
	if err != nil {
		return info, fmt.Errorf("%s: %v", where, err)
	}
	if len(f.Services) == 0 {
		return info, nil
	}
	if err := verifyOne(f, g.connectName, g.connectSrc, g.pbFiles); err != nil {
		return info, fmt.Errorf("%s: %v", where, err)
	}
	if f.Twin {
		info.Label("twin-file-same-service-names")
		if err := verifyOne(f.TwinSpec(), g.twinName, g.twinSrc, g.pbFiles); err != nil {
			return info, fmt.Errorf("%s: second file of the same plugin invocation (same service names, package %q): %v", where, f.TwinSpec().Package, err)
		}
	}
	return info, nil
}

// verifyOne checks one generated connect file against its spec.
func verifyOne(f FileSpec, connectName, connectSrc string, pbFiles map[string]string) error {
	g := &generated{connectName: connectName, connectSrc: connectSrc, pbFiles: pbFiles}
	where := "generated file " + connectName
	var info pbt.Info
	_ = info
	// expected location and package of the generated file
	wantPkg := f.baseGoPkgName() + "connect"
	wantName := f.dir() + "/" + wantPkg + "/svc.connect.go"
	if f.PathsMode == "module" {
		wantName = strings.TrimPrefix(wantName, moduleRoot+"/")
	}
	if g.connectName != wantName {
		return fmt.Errorf("%s: generated file is named %q, want %q", where, g.connectName, wantName)
	}
	fset := token.NewFileSet()
	imp := newImporter(fset)
	if f.Imported {
		name := f.depDir() + "/dep.pb.go"
		if f.PathsMode == "module" {
			name = strings.TrimPrefix(name, moduleRoot+"/")
		}
		if _, _, err := typeCheck(fset, imp, f.depDir(), "dep.pb.go", g.pbFiles[name]); err != nil {
			return fmt.Errorf("HARNESS: dep.pb.go %v (files %v)", err, keys(g.pbFiles))
		}
	}
	pbName := f.dir() + "/svc.pb.go"
	if f.PathsMode == "module" {
		pbName = strings.TrimPrefix(pbName, moduleRoot+"/")
	}
	if _, _, err := typeCheck(fset, imp, f.goImportPath(), "svc.pb.go", g.pbFiles[pbName]); err != nil {
		return fmt.Errorf("HARNESS: svc.pb.go %v (files %v)", err, keys(g.pbFiles))
	}
	file, pkg, err := typeCheck(fset, imp, f.goImportPath()+"/"+wantPkg, "svc.connect.go", g.connectSrc)
	if err != nil {
		return fmt.Errorf("%s: generated code %v\n%s", where, err, numbered(g.connectSrc, 60))
	}
	if pkg.Name() != wantPkg {
		return fmt.Errorf("%s: generated package is %q, want %q", where, pkg.Name(), wantPkg)
	}
	if err := staticRouting(f, file); err != nil {
		return fmt.Errorf("%s: %v", where, err)
	}
	// service name constants
	for _, s := range f.Services {
		obj := pkg.Scope().Lookup(s.Name + "Name")
		c, ok := obj.(*types.Const)
		if !ok || strings.Trim(c.Val().ExactString(), `"`) != f.fqService(s) {
			return fmt.Errorf("%s: constant %sName is %v, want %q", where, s.Name, obj, f.fqService(s))
		}
	}
	return nil
}

func keys(m map[string]string) []string {
	var out []string
	for k := range m {
		out = append(out, k)
	}
	return out
}

func numbered(src string, n int) string {
	lines := strings.Split(src, "\n")
	var b strings.Builder
	for i, l := range lines {
		if i >= n {
			break
		}
		fmt.Fprintf(&b, "%3d %s\n", i+1, l)
	}
	return b.String()
}

var goKeywords = []string{"break", "default", "func", "interface", "select", "case", "defer", "go", "map", "struct", "chan", "else", "goto", "package", "switch", "const", "fallthrough", "if", "range", "type", "continue", "for", "import", "return", "var"}
var predeclared = []string{"len", "string", "int", "error", "nil", "true", "new", "make", "any", "append", "print", "bool", "byte"}

func isOddName(n string) bool {
	if strings.Contains(n, "_") {
		return true
	}
	l := strings.ToLower(n[:1]) + n[1:]
	for _, k := range append(append([]string{}, goKeywords...), predeclared...) {
		if l == k || strings.ToLower(n) == k {
			return true
		}
	}
	return false
}

func title(s string) string { return strings.ToUpper(s[:1]) + s[1:] }

func nameGen(t *rapid.T, label string) string {
	switch rapid.IntRange(0, 6).Draw(t, label+"Class") {
	case 6:
		// other casings of keyword-like names: GO, IF, MAP, TYPE, gO, …
		kw := rapid.SampledFrom(append(append([]string{}, goKeywords...), predeclared...)).Draw(t, label+"KwAny")
		b := []byte(kw)
		up := rapid.SampledFrom([]string{"all", "all", "mask"}).Draw(t, label+"Casing")
		for i := range b {
			if up == "all" || rapid.Bool().Draw(t, label+"Up") {
				b[i] = byte(strings.ToUpper(string(b[i]))[0])
			}
		}
		return string(b)
	case 0:
		return title(rapid.SampledFrom(goKeywords).Draw(t, label+"Kw"))
	case 1:
		return title(rapid.SampledFrom(predeclared).Draw(t, label+"Pre"))
	case 2:
		return rapid.SampledFrom([]string{"get_thing", "list_all_2", "do_it", "a_b_c", "x1_y2"}).Draw(t, label+"Snake")
	case 3:
		return rapid.SampledFrom([]string{"ping", "doIt", "sum2", "x"}).Draw(t, label+"Lower")
	default:
		return rapid.SampledFrom([]string{"Ping", "Sum", "CountUp", "CumSum", "Fail", "GetUser", "ListUsers", "Watch", "Upload", "Chat", "Do", "A1", "HTTPGet", "HttpGet", "IDLookup", "GOTo", "URL"}).Draw(t, label+"Plain")
	}
}

var nextID int
var idMu sync.Mutex

func gen(t *rapid.T) FileSpec {
	f := FileSpec{ID: rapid.IntRange(0, 999).Draw(t, "id")}
	if rapid.IntRange(0, 5).Draw(t, "pathTail") == 0 {
		f.PathTail = rapid.SampledFrom([]string{"acme-weather/v2", "v2", "x.y/v3", "api/v1"}).Draw(t, "pathTailV")
	}
	f.Package = rapid.SampledFrom([]string{"", "", "foo", "foo.bar.v1", "acme.user_service.v2", "X", "store.v1", "payments.v1", "test.http.v2", "s", "https"}).Draw(t, "package")
	if rapid.Bool().Draw(t, "goPkgName") {
		f.GoPkgName = rapid.SampledFrom([]string{"foov1", "pb", "api_v1"}).Draw(t, "gopkgname")
	}
	f.PathsMode = rapid.SampledFrom([]string{"import", "source_relative", "module"}).Draw(t, "paths")
	f.Deprecated = rapid.IntRange(0, 5).Draw(t, "deprecatedFile") == 0
	nl := rapid.IntRange(1, 3).Draw(t, "nlocals")
	for i := 0; i < nl; i++ {
		f.Locals = append(f.Locals, []string{"Req", "Res", "Item"}[i])
	}
	f.Nested = rapid.Bool().Draw(t, "nested")
	f.Imported = rapid.Bool().Draw(t, "imported")
	f.WKT = rapid.Bool().Draw(t, "wkt")
	f.Twin = rapid.IntRange(0, 3).Draw(t, "twin") == 0
	ns := rapid.SampledFrom([]int{0, 1, 1, 1, 2, 3}).Draw(t, "nservices")
	comments := []string{"", "", " A plain comment.\n", " Multi-line\n comment with */ and ünïcode.\n", " Deprecated: not really.\n"}
	for i := 0; i < ns; i++ {
		s := ServiceSpec{Name: nameGen(t, "svc") + rapid.SampledFrom([]string{"", "Service", "API"}).Draw(t, "svcSuffix")}
		s.Deprecated = rapid.IntRange(0, 5).Draw(t, "deprecatedSvc") == 0
		s.Comment = rapid.SampledFrom(comments).Draw(t, "svcComment")
		nm := rapid.IntRange(1, 5).Draw(t, "nmethods")
		if rapid.IntRange(0, 9).Draw(t, "noMethods") == 0 {
			nm = 0 // a service without methods is legal
		}
		for j := 0; j < nm; j++ {
			s.Methods = append(s.Methods, MethodSpec{
				Name:         nameGen(t, "method"),
				ClientStream: rapid.Bool().Draw(t, "cs"),
				ServerStream: rapid.Bool().Draw(t, "ss"),
				In:           rapid.IntRange(0, 7).Draw(t, "in"),
				Out:          rapid.IntRange(0, 7).Draw(t, "out"),
				Deprecated:   rapid.IntRange(0, 5).Draw(t, "deprecatedMethod") == 0,
				Comment:      rapid.SampledFrom(comments).Draw(t, "methodComment"),
				Trailing:     rapid.SampledFrom([]string{"", "", "", " one trailing line\n", " trailing, line one\n line two with */ inside\n", " ünï trailing\n\n after a blank line\n"}).Draw(t, "methodTrailing"),
			})
		}
		f.Services = append(f.Services, s)
	}
	return f
}

var spec = pbt.Spec[FileSpec]{
	Prop: "C17", Name: "descriptors", Gen: gen, Check: check,
	Rule: "FileDescriptorProtos built by construction and validated with protodesc: package absent / single / dotted; 0..3 services × 1..5 methods × 4 streaming kinds; service and method names from a grammar incl. snake_case, lower-case initials, digits and every name whose lower-camel form is a Go keyword or predeclared identifier in any casing (Type, TYPE, tYpE) and names with leading initialisms (HTTPGet next to HttpGet); deprecated file/service/method options; leading comments (multi-line, '*/', non-ASCII); messages local, nested, imported from a file with another go_package, well-known types; go_package with/without ';name'; paths=import / source_relative / module=; optionally a second file in the same plugin invocation that declares services with the same names in another package. The plugin binary is built from /repo's tree and fed CodeGeneratorRequests. Oracle: exits 0 without error; no output for files without services; two runs byte-identical; expected file name and package; output parses and type-checks (go/types against export data of /repo's connect package and the protoc-gen-go output); per method, handler registration, Spec procedure and client constructor use the canonical '/<fully-qualified service>/<method>' with the constructor and Call* matching the streaming kind; mount prefix '/<fq service>/'; <Service>Name constants. Go-name collisions that protoc permits are discarded (labelled). Non-trivial = ≥2 methods of different kinds, or a keyword-like/snake_case name, or no package, or an imported message type",
}

func TestDescriptors(t *testing.T) { pbt.Run(t, spec) }

// TestCheckedIn: the generated code checked into the repository is what the
// generator produces from the checked-in descriptors.
func TestCheckedIn(t *testing.T) {
	defer pbt.Flush()
	if err := tools(); err != nil {
		t.Fatalf("HARNESS: %v", err)
	}
	fdp := protodesc.ToFileDescriptorProto(pingv1.File_connect_ping_v1_ping_proto)
	// leading comments of the rpcs, lifted from the .proto source
	src, err := os.ReadFile(filepath.Join(repoDir(), "internal/proto/connect/ping/v1/ping.proto"))
	if err != nil {
		t.Fatalf("HARNESS: %v", err)
	}
	var pending []string
	mi := 0
	sci := &descriptorpb.SourceCodeInfo{}
	inService := false
	for _, line := range strings.Split(string(src), "\n") {
		trim := strings.TrimSpace(line)
		switch {
		case strings.HasPrefix(trim, "service "):
			inService = true
			pending = nil
		case inService && strings.HasPrefix(trim, "//"):
			pending = append(pending, strings.TrimPrefix(trim, "//"))
		case inService && strings.HasPrefix(trim, "rpc "):
			if len(pending) > 0 {
				sci.Location = append(sci.Location, &descriptorpb.SourceCodeInfo_Location{Path: []int32{6, 0, 2, int32(mi)}, Span: []int32{int32(mi), 0, 1}, LeadingComments: proto.String(strings.Join(pending, "\n") + "\n")})
			}
			pending = nil
			mi++
		default:
			pending = nil
		}
	}
	fdp.SourceCodeInfo = sci
	req := &pluginpb.CodeGeneratorRequest{FileToGenerate: []string{fdp.GetName()}, ProtoFile: []*descriptorpb.FileDescriptorProto{fdp}, Parameter: proto.String("paths=source_relative")}
	resp, err := runPlugin(pluginBin, req)
	if err != nil || resp.Error != nil || len(resp.File) != 1 {
		t.Fatalf("C17/checked-in: generator failed on the checked-in descriptor: %v %s", err, resp.GetError())
	}
	checked, err := os.ReadFile(filepath.Join(repoDir(), "internal/gen/connect/ping/v1/pingv1connect/ping.connect.go"))
	if err != nil {
		t.Fatalf("HARNESS: %v", err)
	}
	got := resp.File[0].GetContent()
	want := string(checked)
	if i := strings.Index(want, "// Code generated by"); i >= 0 {
		want = want[i:] // drop the licence header added by the repository's tooling
	}
	if got != want {
		path := filepath.Join(os.Getenv("VERIF_REPLAY_DIR"), "C17")
		_ = os.MkdirAll(path, 0o755)
		file := filepath.Join(path, "checked-in-diff.txt")
		_ = os.WriteFile(file, []byte("=== generated ===\n"+got+"\n=== checked in (minus licence header) ===\n"+want), 0o644)
		fmt.Printf("VIOLATION property=C17 replay=%s\n", file)
		t.Fatalf("C17/checked-in violated: ping.connect.go differs from what the generator produces from the checked-in descriptor (first difference at byte %d)", firstDiff(got, want))
	}
	pbt.RecordBulk("C17", "checked-in", "regenerate internal/gen/.../ping.connect.go from the descriptor embedded in ping.pb.go plus the rpc leading comments of ping.proto; must equal the checked-in file byte for byte after the licence header", 1, 0, true, map[string]any{"file": resp.File[0].GetName(), "bytes": len(got)})
}

func firstDiff(a, b string) int {
	for i := 0; i < len(a) && i < len(b); i++ {
		if a[i] != b[i] {
			return i
		}
	}
	return min(len(a), len(b))
}

func TestReplay(t *testing.T) { pbt.ReplayMain(t, pbt.Replayer(spec)) }
