package c17

import (
	"fmt"
	"strings"
	"unicode"

	"google.golang.org/protobuf/proto"
	"google.golang.org/protobuf/reflect/protodesc"
	"google.golang.org/protobuf/reflect/protoreflect"
	"google.golang.org/protobuf/reflect/protoregistry"
	"google.golang.org/protobuf/types/descriptorpb"
	_ "google.golang.org/protobuf/types/known/durationpb"
	_ "google.golang.org/protobuf/types/known/emptypb"
)

// MethodSpec / ServiceSpec / FileSpec describe a generated .proto file.
type MethodSpec struct {
	Name         string `json:"name"`
	ClientStream bool   `json:"client_stream"`
	ServerStream bool   `json:"server_stream"`
	In           int    `json:"in"`  // index into the message pool
	Out          int    `json:"out"` // index into the message pool
	Deprecated   bool   `json:"deprecated,omitempty"`
	Comment      string `json:"comment,omitempty"`
	Trailing     string `json:"trailing,omitempty"` // trailing comment of the rpc (after its ';' / closing brace)
}

type ServiceSpec struct {
	Name       string       `json:"name"`
	Methods    []MethodSpec `json:"methods"`
	Deprecated bool         `json:"deprecated,omitempty"`
	Comment    string       `json:"comment,omitempty"`
}

type FileSpec struct {
	ID         int           `json:"id"`
	Package    string        `json:"package"`
	GoPkgName  string        `json:"go_pkg_name"` // "" → go_package without ";name"
	PathsMode  string        `json:"paths_mode"`  // import | source_relative | module
	Services   []ServiceSpec `json:"services"`
	Deprecated bool          `json:"deprecated,omitempty"`
	Locals     []string      `json:"locals"` // local top-level message names
	Nested     bool          `json:"nested"`
	Imported   bool          `json:"imported"`
	WKT        bool          `json:"wkt"`
	// Twin: the same plugin invocation also generates a second file that
	// declares services with the SAME names in another package.
	Twin bool   `json:"twin,omitempty"`
	Sub  string `json:"sub,omitempty"` // directory suffix (set on the derived twin spec)
	// PathTail: further import-path elements below the file's directory, e.g.
	// "acme-weather/v2": the Go package is then named after a bare major
	// version and its parent element is not a Go identifier.
	PathTail string `json:"path_tail,omitempty"`
}

// TwinSpec returns the spec of the second file of a twin request.
func (f FileSpec) TwinSpec() FileSpec {
	t := f
	t.Twin, t.Sub = false, "twin"
	if f.Package == "" {
		t.Package = "twinpkg"
	} else {
		t.Package = f.Package + ".twin2"
	}
	return t
}

const moduleRoot = "c17batch"

func (f FileSpec) dir() string {
	d := fmt.Sprintf("%s/gen/c%d%s", moduleRoot, f.ID, f.Sub)
	if f.PathTail != "" {
		d += "/" + f.PathTail
	}
	return d
}
func (f FileSpec) protoName() string    { return f.dir() + "/svc.proto" }
func (f FileSpec) depDir() string       { return fmt.Sprintf("%s/gen/c%ddep", moduleRoot, f.ID) }
func (f FileSpec) depProto() string     { return f.depDir() + "/dep.proto" }
func (f FileSpec) goImportPath() string { return f.dir() }

func (f FileSpec) goPackageOption() string {
	if f.GoPkgName != "" {
		return f.dir() + ";" + f.GoPkgName
	}
	return f.dir()
}

// baseGoPkgName is the Go package name protoc-gen-go will use.
func (f FileSpec) baseGoPkgName() string {
	if f.GoPkgName != "" {
		return f.GoPkgName
	}
	if f.PathTail != "" {
		return f.PathTail[strings.LastIndex(f.PathTail, "/")+1:]
	}
	return fmt.Sprintf("c%d%s", f.ID, f.Sub)
}

func (f FileSpec) parameter() string {
	switch f.PathsMode {
	case "source_relative":
		return "paths=source_relative"
	case "module":
		return "module=" + moduleRoot
	}
	return ""
}

// pool returns the fully-qualified message type names usable as input/output.
func (f FileSpec) pool() []string {
	prefix := "."
	if f.Package != "" {
		prefix = "." + f.Package + "."
	}
	var out []string
	for _, l := range f.Locals {
		out = append(out, prefix+l)
	}
	if f.Nested {
		out = append(out, prefix+"Outer.Inner")
	}
	if f.Imported {
		out = append(out, fmt.Sprintf(".dep%d.pkg.Dep", f.ID))
	}
	if f.WKT {
		out = append(out, ".google.protobuf.Empty", ".google.protobuf.Duration")
	}
	return out
}

func (f FileSpec) fqService(s ServiceSpec) string {
	if f.Package == "" {
		return s.Name
	}
	return f.Package + "." + s.Name
}

// GoCamelCase mirrors protoc-gen-go's naming rule for identifiers.
func GoCamelCase(s string) string {
	var b []byte
	for i := 0; i < len(s); i++ {
		c := s[i]
		switch {
		case c == '.' && i+1 < len(s) && isLower(s[i+1]):
		case c == '.':
			b = append(b, '_')
		case c == '_' && (i == 0 || s[i-1] == '.'):
			b = append(b, 'X')
		case c == '_' && i+1 < len(s) && isLower(s[i+1]):
		case isDigit(c):
			b = append(b, c)
		default:
			if isLower(c) {
				c -= 'a' - 'A'
			}
			b = append(b, c)
			for ; i+1 < len(s) && isLower(s[i+1]); i++ {
				b = append(b, s[i+1])
			}
		}
	}
	return string(b)
}

func isLower(c byte) bool { return 'a' <= c && c <= 'z' }
func isDigit(c byte) bool { return '0' <= c && c <= '9' }

func unexport(s string) string {
	r := []rune(s)
	r[0] = unicode.ToLower(r[0])
	return string(r)
}

// Build returns the file descriptors (dependencies first) for a spec, or an
// error if the spec is not a valid Protobuf file (such specs are discarded).
func (f FileSpec) Build() ([]*descriptorpb.FileDescriptorProto, error) {
	files, err := f.build()
	if err != nil {
		return nil, err
	}
	if f.Twin {
		more, err := f.TwinSpec().build()
		if err != nil {
			return nil, err
		}
		for _, m := range more {
			dup := false
			for _, have := range files {
				if have.GetName() == m.GetName() {
					dup = true
				}
			}
			if !dup {
				files = append(files, m)
			}
		}
	}
	// validate with protodesc (this is what makes the files "valid")
	reg := new(protoregistry.Files)
	for _, name := range []string{"google/protobuf/empty.proto", "google/protobuf/duration.proto"} {
		d, err := protoregistry.GlobalFiles.FindFileByPath(name)
		if err != nil {
			return nil, err
		}
		_ = reg.RegisterFile(d)
	}
	for _, p := range files {
		d, err := protodesc.NewFile(p, reg)
		if err != nil {
			return nil, err
		}
		if err := reg.RegisterFile(d); err != nil {
			return nil, err
		}
	}
	return files, nil
}

func (f FileSpec) build() ([]*descriptorpb.FileDescriptorProto, error) {
	var files []*descriptorpb.FileDescriptorProto
	fd := &descriptorpb.FileDescriptorProto{
		Name:    proto.String(f.protoName()),
		Syntax:  proto.String("proto3"),
		Options: &descriptorpb.FileOptions{GoPackage: proto.String(f.goPackageOption())},
	}
	if f.Package != "" {
		fd.Package = proto.String(f.Package)
	}
	if f.Deprecated {
		fd.Options.Deprecated = proto.Bool(true)
	}
	for _, l := range f.Locals {
		fd.MessageType = append(fd.MessageType, &descriptorpb.DescriptorProto{
			Name: proto.String(l),
			Field: []*descriptorpb.FieldDescriptorProto{{
				Name: proto.String("value"), Number: proto.Int32(1), JsonName: proto.String("value"),
				Type: descriptorpb.FieldDescriptorProto_TYPE_STRING.Enum(), Label: descriptorpb.FieldDescriptorProto_LABEL_OPTIONAL.Enum(),
			}},
		})
	}
	if f.Nested {
		fd.MessageType = append(fd.MessageType, &descriptorpb.DescriptorProto{
			Name:       proto.String("Outer"),
			NestedType: []*descriptorpb.DescriptorProto{{Name: proto.String("Inner")}},
		})
	}
	if f.Imported {
		dep := &descriptorpb.FileDescriptorProto{
			Name:        proto.String(f.depProto()),
			Syntax:      proto.String("proto3"),
			Package:     proto.String(fmt.Sprintf("dep%d.pkg", f.ID)),
			Options:     &descriptorpb.FileOptions{GoPackage: proto.String(f.depDir() + ";otherpb")},
			MessageType: []*descriptorpb.DescriptorProto{{Name: proto.String("Dep")}},
		}
		files = append(files, dep)
		fd.Dependency = append(fd.Dependency, f.depProto())
	}
	if f.WKT {
		fd.Dependency = append(fd.Dependency, "google/protobuf/empty.proto", "google/protobuf/duration.proto")
	}
	pool := f.pool()
	sci := &descriptorpb.SourceCodeInfo{}
	for si, s := range f.Services {
		sd := &descriptorpb.ServiceDescriptorProto{Name: proto.String(s.Name)}
		if s.Deprecated {
			sd.Options = &descriptorpb.ServiceOptions{Deprecated: proto.Bool(true)}
		}
		if s.Comment != "" {
			sci.Location = append(sci.Location, &descriptorpb.SourceCodeInfo_Location{Path: []int32{6, int32(si)}, Span: []int32{int32(10 * si), 0, 1}, LeadingComments: proto.String(s.Comment)})
		}
		for mi, m := range s.Methods {
			if len(pool) == 0 {
				return nil, fmt.Errorf("no message types")
			}
			md := &descriptorpb.MethodDescriptorProto{
				Name:       proto.String(m.Name),
				InputType:  proto.String(pool[m.In%len(pool)]),
				OutputType: proto.String(pool[m.Out%len(pool)]),
			}
			if m.ClientStream {
				md.ClientStreaming = proto.Bool(true)
			}
			if m.ServerStream {
				md.ServerStreaming = proto.Bool(true)
			}
			if m.Deprecated {
				md.Options = &descriptorpb.MethodOptions{Deprecated: proto.Bool(true)}
			}
			if m.Comment != "" || m.Trailing != "" {
				loc := &descriptorpb.SourceCodeInfo_Location{Path: []int32{6, int32(si), 2, int32(mi)}, Span: []int32{int32(10*si + mi + 1), 2, 3}}
				if m.Comment != "" {
					loc.LeadingComments = proto.String(m.Comment)
				}
				if m.Trailing != "" {
					loc.TrailingComments = proto.String(m.Trailing)
				}
				sci.Location = append(sci.Location, loc)
			}
			sd.Method = append(sd.Method, md)
		}
		fd.Service = append(fd.Service, sd)
	}
	if len(sci.Location) > 0 {
		fd.SourceCodeInfo = sci
	}
	files = append(files, fd)
	return files, nil
}

// WKTFiles returns the descriptors of the well-known types used.
func WKTFiles() []*descriptorpb.FileDescriptorProto {
	var out []*descriptorpb.FileDescriptorProto
	for _, name := range []string{"google/protobuf/empty.proto", "google/protobuf/duration.proto"} {
		d, _ := protoregistry.GlobalFiles.FindFileByPath(name)
		out = append(out, protodesc.ToFileDescriptorProto(d))
	}
	return out
}

// goNameProblems reports Go-level name collisions that protoc itself permits
// but that are outside the domain (DESIGN §5 C17).
func (f FileSpec) goNameProblems() string {
	seenSvc := map[string]bool{}
	idents := map[string]bool{}
	for _, s := range f.Services {
		g := GoCamelCase(s.Name)
		if seenSvc[g] {
			return "two services share the Go name " + g
		}
		seenSvc[g] = true
		for _, id := range []string{g + "Client", "New" + g + "Client", unexport(g) + "Client", g + "Handler", "New" + g + "Handler", "Unimplemented" + g + "Handler", s.Name + "Name"} {
			if idents[id] {
				return "identifier " + id + " would be declared twice"
			}
			idents[id] = true
		}
		seenM := map[string]bool{}
		for _, m := range s.Methods {
			gm := GoCamelCase(m.Name)
			if seenM[gm] || seenM[strings.ToLower(gm[:1])+gm[1:]] {
				return "two methods share the Go name " + gm
			}
			seenM[gm] = true
			seenM[strings.ToLower(gm[:1])+gm[1:]] = true
		}
	}
	return ""
}

var _ protoreflect.FullName
