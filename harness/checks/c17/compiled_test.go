package c17

import (
	"bytes"
	"encoding/json"
	"fmt"
	"os"
	"path/filepath"
	"strconv"
	"strings"
	"testing"

	"github.com/bufbuild/connect-go/verif/pbt"
	"pgregory.net/rapid"
)

// goType returns the Go expression for message pool entry i as seen from the
// driver (package aliases pb<ID>, dep<ID>, emptypb, durationpb).
func (f FileSpec) goType(i int) string {
	pool := f.pool()
	name := pool[i%len(pool)]
	switch {
	case name == ".google.protobuf.Empty":
		return "emptypb.Empty"
	case name == ".google.protobuf.Duration":
		return "durationpb.Duration"
	case strings.HasSuffix(name, ".Dep") && strings.HasPrefix(name, fmt.Sprintf(".dep%d.", f.ID)):
		return fmt.Sprintf("dep%d.Dep", f.ID)
	case strings.HasSuffix(name, "Outer.Inner"):
		return fmt.Sprintf("pb%d.Outer_Inner", f.ID)
	}
	return fmt.Sprintf("pb%d.%s", f.ID, name[strings.LastIndex(name, ".")+1:])
}

type routed struct {
	Case    int    `json:"case"`
	Service string `json:"service"`
	Method  string `json:"method"`
	Mount   string `json:"mount"`
	CProc   string `json:"cproc"`
	CType   int    `json:"ctype"`
	CCalls  int    `json:"ccalls"`
	HProc   string `json:"hproc"`
	HType   int    `json:"htype"`
	HCalls  int    `json:"hcalls"`
	ErrCode int    `json:"errcode"`
	ErrText string `json:"errtext"`
}

func driverSource(specs []FileSpec) string {
	var b bytes.Buffer
	b.WriteString("package main\n\nimport (\n\t\"context\"\n\t\"encoding/json\"\n\t\"errors\"\n\t\"fmt\"\n\t\"net/http\"\n\t\"os\"\n\t\"sync\"\n\n")
	b.WriteString("\tconnect \"github.com/bufbuild/connect-go\"\n\t\"github.com/bufbuild/connect-go/verif/memnet\"\n")
	b.WriteString("\t\"google.golang.org/protobuf/types/known/durationpb\"\n\t\"google.golang.org/protobuf/types/known/emptypb\"\n")
	for _, f := range specs {
		fmt.Fprintf(&b, "\tpb%d %q\n", f.ID, f.goImportPath())
		fmt.Fprintf(&b, "\tcp%d %q\n", f.ID, f.goImportPath()+"/"+f.baseGoPkgName()+"connect")
		if f.Imported {
			fmt.Fprintf(&b, "\tdep%d %q\n", f.ID, f.depDir())
		}
	}
	b.WriteString(")\n\n")
	for _, f := range specs {
		fileVar := "File_" + strings.Map(func(r rune) rune {
			if r >= 'a' && r <= 'z' || r >= 'A' && r <= 'Z' || r >= '0' && r <= '9' {
				return r
			}
			return '_'
		}, f.protoName())
		fmt.Fprintf(&b, "var _ = pb%d.%s\n", f.ID, fileVar)
		if f.Imported {
			fmt.Fprintf(&b, "var _ = dep%d.File_c17batch_gen_c%ddep_dep_proto\n", f.ID, f.ID)
		}
	}
	b.WriteString(`var _ = durationpb.New
var _ = emptypb.Empty{}

type rec struct {
	mu    sync.Mutex
	specs []connect.Spec
}

func (r *rec) add(s connect.Spec) { r.mu.Lock(); r.specs = append(r.specs, s); r.mu.Unlock() }
func (r *rec) take() []connect.Spec {
	r.mu.Lock()
	defer r.mu.Unlock()
	out := r.specs
	r.specs = nil
	return out
}
func (r *rec) WrapUnary(next connect.UnaryFunc) connect.UnaryFunc {
	return func(ctx context.Context, req connect.AnyRequest) (connect.AnyResponse, error) {
		r.add(req.Spec())
		return next(ctx, req)
	}
}
func (r *rec) WrapStreamingClient(next connect.StreamingClientFunc) connect.StreamingClientFunc {
	return func(ctx context.Context, s connect.Spec) connect.StreamingClientConn { r.add(s); return next(ctx, s) }
}
func (r *rec) WrapStreamingHandler(next connect.StreamingHandlerFunc) connect.StreamingHandlerFunc {
	return func(ctx context.Context, c connect.StreamingHandlerConn) error { r.add(c.Spec()); return next(ctx, c) }
}

type row struct {
	Case    int    ` + "`json:\"case\"`" + `
	Service string ` + "`json:\"service\"`" + `
	Method  string ` + "`json:\"method\"`" + `
	Mount   string ` + "`json:\"mount\"`" + `
	CProc   string ` + "`json:\"cproc\"`" + `
	CType   int    ` + "`json:\"ctype\"`" + `
	CCalls  int    ` + "`json:\"ccalls\"`" + `
	HProc   string ` + "`json:\"hproc\"`" + `
	HType   int    ` + "`json:\"htype\"`" + `
	HCalls  int    ` + "`json:\"hcalls\"`" + `
	ErrCode int    ` + "`json:\"errcode\"`" + `
	ErrText string ` + "`json:\"errtext\"`" + `
}

func report(c int, svc, method, mount string, cr, hr *rec, err error) {
	r := row{Case: c, Service: svc, Method: method, Mount: mount}
	cs, hs := cr.take(), hr.take()
	r.CCalls, r.HCalls = len(cs), len(hs)
	if len(cs) > 0 {
		r.CProc, r.CType = cs[0].Procedure, int(cs[0].StreamType)
	}
	if len(hs) > 0 {
		r.HProc, r.HType = hs[0].Procedure, int(hs[0].StreamType)
	}
	if err != nil {
		r.ErrText = err.Error()
		var ce *connect.Error
		if errors.As(err, &ce) {
			r.ErrCode = int(ce.Code())
		}
	}
	_ = json.NewEncoder(os.Stdout).Encode(r)
}

func main() {
	ctx := context.Background()
	_ = fmt.Sprint
`)
	for _, f := range specs {
		for si, s := range f.Services {
			g := GoCamelCase(s.Name)
			v := fmt.Sprintf("c%ds%d", f.ID, si)
			fmt.Fprintf(&b, "\t{\n\t\tcr, hr := &rec{}, &rec{}\n")
			fmt.Fprintf(&b, "\t\tmount, h := cp%d.New%sHandler(cp%d.Unimplemented%sHandler{}, connect.WithInterceptors(hr))\n", f.ID, g, f.ID, g)
			fmt.Fprintf(&b, "\t\tmux := http.NewServeMux()\n\t\tmux.Handle(mount, h)\n")
			fmt.Fprintf(&b, "\t\t%s := cp%d.New%sClient(&memnet.Mem{Handler: mux}, \"http://route.test/\", connect.WithInterceptors(cr), connect.WithGRPC())\n\t\t_ = %s\n", v, f.ID, g, v)
			for _, m := range s.Methods {
				gm := GoCamelCase(m.Name)
				in := f.goType(m.In)
				fmt.Fprintf(&b, "\t\t{\n\t\t\tvar err error\n")
				switch kindOf(m) {
				case "Unary":
					fmt.Fprintf(&b, "\t\t\t_, err = %s.%s(ctx, connect.NewRequest(&%s{}))\n", v, gm, in)
				case "Client":
					fmt.Fprintf(&b, "\t\t\tst := %s.%s(ctx)\n\t\t\t_, err = st.CloseAndReceive()\n", v, gm)
				case "Server":
					fmt.Fprintf(&b, "\t\t\tst, e := %s.%s(ctx, connect.NewRequest(&%s{}))\n\t\t\terr = e\n\t\t\tif e == nil {\n\t\t\t\tfor st.Receive() {\n\t\t\t\t}\n\t\t\t\terr = st.Err()\n\t\t\t\t_ = st.Close()\n\t\t\t}\n", v, gm, in)
				default:
					fmt.Fprintf(&b, "\t\t\tst := %s.%s(ctx)\n\t\t\t_ = st.CloseRequest()\n\t\t\t_, err = st.Receive()\n\t\t\t_ = st.CloseResponse()\n", v, gm)
				}
				fmt.Fprintf(&b, "\t\t\treport(%d, %q, %q, mount, cr, hr, err)\n\t\t}\n", f.ID, s.Name, m.Name)
			}
			fmt.Fprintf(&b, "\t}\n")
		}
	}
	b.WriteString("}\n")
	return b.String()
}

// TestCompiledRouting compiles a batch of generated packages together with a
// generated driver and executes every method through the generated client
// against the generated handler: the request must reach exactly that method.
func TestCompiledRouting(t *testing.T) {
	defer pbt.Flush()
	if err := tools(); err != nil {
		t.Fatalf("HARNESS: %v", err)
	}
	n := 8
	if pbt.Thorough() {
		n = 40
	}
	shardIdx, _ := strconv.Atoi(os.Getenv("VERIF_SHARD_INDEX"))
	seedBase, _ := strconv.Atoi(os.Getenv("VERIF_SEED"))
	g := rapid.Custom(gen)
	var specs []FileSpec
	for i := 0; len(specs) < n && i < 40*n; i++ {
		f := g.Example(seedBase*1000 + shardIdx*100000 + i)
		f.ID = len(specs)
		f.Twin = false
		if len(f.Services) == 0 || f.goNameProblems() != "" {
			continue
		}
		if _, err := f.Build(); err != nil {
			continue
		}
		specs = append(specs, f)
	}
	dir := filepath.Join(root(), ".run", fmt.Sprintf("c17batch-%d", os.Getpid()))
	modDir := filepath.Join(dir, moduleRoot)
	defer os.RemoveAll(dir)
	if err := os.MkdirAll(filepath.Join(modDir, "driver"), 0o755); err != nil {
		t.Fatalf("HARNESS: %v", err)
	}
	write := func(rel, content string) {
		p := filepath.Join(dir, rel)
		_ = os.MkdirAll(filepath.Dir(p), 0o755)
		if err := os.WriteFile(p, []byte(content), 0o644); err != nil {
			t.Fatalf("HARNESS: %v", err)
		}
	}
	for _, f := range specs {
		gen, _, err := generate(f)
		if err != nil {
			path := pbt.SaveReplay(spec, f, err)
			fmt.Printf("VIOLATION property=C17 replay=%s\n", path)
			t.Fatalf("C17/compiled-routing violated: %v", err)
		}
		prefix := ""
		if f.PathsMode == "module" {
			prefix = moduleRoot + "/"
		}
		write(prefix+gen.connectName, gen.connectSrc)
		for name, src := range gen.pbFiles {
			write(prefix+name, src)
		}
	}
	write(moduleRoot+"/go.mod", fmt.Sprintf("module %s\n\ngo 1.26\n\nrequire (\n\tgithub.com/bufbuild/connect-go v0.0.0\n\tgithub.com/bufbuild/connect-go/verif v0.0.0\n\tgoogle.golang.org/protobuf v1.28.0\n)\n\nreplace github.com/bufbuild/connect-go => %s\n\nreplace github.com/bufbuild/connect-go/verif => %s\n", moduleRoot, repoDir(), filepath.Join(root(), "harness")))
	sum, _ := os.ReadFile(filepath.Join(root(), "harness", "go.sum"))
	write(moduleRoot+"/go.sum", string(sum))
	write(moduleRoot+"/driver/main.go", driverSource(specs))
	bin := filepath.Join(dir, "driver.bin")
	if out, err := goCmd(modDir, "build", "-o", bin, "./driver").CombinedOutput(); err != nil {
		// generated code that does not compile is a violation of "valid Go that type-checks"
		msg := fmt.Errorf("generated packages do not compile together with a driver that calls every method through the generated client:\n%s", tail(string(out), 3000))
		path := pbt.SaveReplay(spec, specs[0], msg)
		fmt.Printf("VIOLATION property=C17 replay=%s\n", path)
		t.Fatalf("C17/compiled-routing violated: %v", msg)
	}
	cmd := goCmd(modDir, "version")
	cmd.Path, cmd.Args = bin, []string{bin}
	// several generated files may declare the same proto package and message names
	cmd.Env = append(cmd.Env, "GOLANG_PROTOBUF_REGISTRATION_CONFLICT=ignore")
	var stderr bytes.Buffer
	cmd.Stderr = &stderr
	out, err := cmd.Output()
	if err != nil {
		t.Fatalf("HARNESS: driver failed: %v\n%s", err, tail(stderr.String(), 3000))
	}
	rows := map[string]routed{}
	for _, line := range strings.Split(strings.TrimSpace(string(out)), "\n") {
		var r routed
		if json.Unmarshal([]byte(line), &r) == nil {
			rows[fmt.Sprintf("%d/%s/%s", r.Case, r.Service, r.Method)] = r
		}
	}
	total, nt := 0, 0
	var samples []any
	for _, f := range specs {
		for _, s := range f.Services {
			fq := f.fqService(s)
			for _, m := range s.Methods {
				total++
				r, ok := rows[fmt.Sprintf("%d/%s/%s", f.ID, s.Name, m.Name)]
				want := "/" + fq + "/" + m.Name
				st := map[string]int{"Unary": 0, "Client": 1, "Server": 2, "Bidi": 3}[kindOf(m)]
				var verr error
				switch {
				case !ok:
					verr = fmt.Errorf("no result for %s.%s", fq, m.Name)
				case r.Mount != "/"+fq+"/":
					verr = fmt.Errorf("mount prefix %q, canonical %q", r.Mount, "/"+fq+"/")
				case r.CCalls != 1 || r.CProc != want || r.CType != st:
					verr = fmt.Errorf("client-side Spec for %s.%s: %d calls, procedure %q type %d; want 1 call, %q, type %d", fq, m.Name, r.CCalls, r.CProc, r.CType, want, st)
				case r.HCalls != 1 || r.HProc != want || r.HType != st:
					verr = fmt.Errorf("handler-side Spec for %s.%s: %d calls, procedure %q type %d; want 1 call, %q, type %d (client error: %s)", fq, m.Name, r.HCalls, r.HProc, r.HType, want, st, r.ErrText)
				case r.ErrCode != 12 || !strings.Contains(r.ErrText, fq+"."+m.Name+" is not implemented"):
					verr = fmt.Errorf("calling %s.%s through the generated client did not reach that method of the generated handler: code %d %q", fq, m.Name, r.ErrCode, r.ErrText)
				}
				if verr != nil {
					path := pbt.SaveReplay(spec, f, verr)
					fmt.Printf("VIOLATION property=C17 replay=%s\n", path)
					t.Fatalf("C17/compiled-routing violated: %v (file %+v)", verr, f)
				}
				if isOddName(m.Name) || isOddName(s.Name) || f.Package == "" || kindOf(m) != "Unary" {
					nt++
				}
				if len(samples) < 4 {
					samples = append(samples, r)
				}
			}
		}
	}
	pbt.RecordBulk("C17", "compiled-routing", fmt.Sprintf("%d generated files (same generator as [descriptors], seeds derived from VERIF_SEED) compiled with go build together with a generated driver and EXECUTED: every method is called through New<Svc>Client over an in-memory transport against New<Svc>Handler(Unimplemented<Svc>Handler); oracle: mount prefix, client-side and handler-side Spec (procedure, stream type, exactly one call each) and the unimplemented error naming exactly that method; non-trivial = streaming method, keyword-like/snake_case name or no package", len(specs)), total, nt, false, samples...)
}

func tail(s string, n int) string {
	if len(s) > n {
		return s[len(s)-n:]
	}
	return s
}
