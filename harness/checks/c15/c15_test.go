package c15

import (
	"bytes"
	"context"
	"fmt"
	"io"
	"net/http"
	"strings"
	"testing"
	"testing/synctest"
	"time"

	connect "github.com/bufbuild/connect-go"
	"github.com/bufbuild/connect-go/verif/memnet"
	"github.com/bufbuild/connect-go/verif/refwire"

	"github.com/bufbuild/connect-go/verif/pbt"
	"github.com/bufbuild/connect-go/verif/prog"
	"github.com/bufbuild/connect-go/verif/sched"
	"pgregory.net/rapid"
)

type Case struct {
	Instant string         `json:"instant"` // before | between | blocked-send | blocked-recv | tie | typed-blocked | typed-before | handler-returns
	Mode    string         `json:"mode"`    // cancel | deadline
	S       sched.Scenario `json:"s"`
}

func msg(i, size int) *prog.Msg { return &prog.Msg{N: int64(i + 1), TLen: size, TSeed: i} }

func gen(t *rapid.T) Case {
	c := Case{
		Instant: rapid.SampledFrom([]string{"before", "between", "between", "between-burst", "blocked-send", "blocked-recv", "blocked-recv", "tie", "typed-blocked", "typed-before", "handler-returns"}).Draw(t, "instant"),
		Mode:    rapid.SampledFrom([]string{"cancel", "deadline"}).Draw(t, "mode"),
	}
	s := &c.S
	s.Cfg = prog.Config{Protocol: rapid.SampledFrom(prog.Protocols).Draw(t, "protocol"), Codec: "proto", Kind: prog.Bidi}
	s.Transport = rapid.SampledFrom([]string{"mem", "h2c"}).Draw(t, "transport")
	if rapid.IntRange(0, 2).Draw(t, "delayed") == 0 {
		s.Delays = []sched.Delay{{Point: rapid.SampledFrom(sched.Points).Draw(t, "point"), NS: rapid.SampledFrom([]int64{1e6, 300e6}).Draw(t, "delay")}}
	}
	const T = int64(10e9) // the instant, in virtual ns
	end := func(at int64) {
		if c.Mode == "deadline" {
			s.DeadlineNS = at
		} else {
			s.CancelNS = at
		}
	}
	respClosed := false
	after := func(n int) {
		for r := 0; r < n; r++ {
			op := rapid.SampledFrom([]string{"send", "recv", "recv", "closereq", "closeresp"}).Draw(t, "afterop")
			if op == "recv" && respClosed {
				op = "send" // receiving after CloseResponse is not a meaningful program
			}
			if op == "closeresp" {
				respClosed = true
			}
			co := prog.COp{Op: op}
			if op == "send" {
				co.Msg = msg(30+r, rapid.SampledFrom([]int{5, 3000}).Draw(t, "asize"))
			}
			s.Client.Ops = append(s.Client.Ops, co)
		}
	}
	// the handler is still running at the instant: it drains (blocks until the request ends)
	s.Handler.Drain = true
	switch c.Instant {
	case "before":
		if c.Mode == "deadline" {
			s.DeadlineNS = 1e6
			s.Client.Ops = append(s.Client.Ops, prog.COp{Op: "sleep", D: 1e9})
		} else {
			s.CancelNS = -1
			if rapid.Bool().Draw(t, "deadlineLater") {
				// the context also has a deadline, which passes AFTER the
				// cancellation and before the first operation: the call was
				// cancelled, and that is what every failure must say
				s.DeadlineNS = 1e6
				s.Client.Ops = append(s.Client.Ops, prog.COp{Op: "sleep", D: 1e9})
			}
		}
		// discipline: the request side is started before the response side is used
		if rapid.Bool().Draw(t, "startWithSend") {
			s.Client.Ops = append(s.Client.Ops, prog.COp{Op: "send", Msg: msg(0, 10)})
		} else {
			s.Client.Ops = append(s.Client.Ops, prog.COp{Op: "closereq"})
		}
		after(rapid.IntRange(0, 4).Draw(t, "nafter"))
	case "between":
		k := rapid.IntRange(0, 3).Draw(t, "rounds")
		for r := 0; r < k; r++ {
			s.Handler.Steps = append(s.Handler.Steps, prog.HStep{Op: "recv", N: 1}, prog.HStep{Op: "send", Msg: msg(r, 10)})
			s.Client.Ops = append(s.Client.Ops, prog.COp{Op: "send", Msg: msg(r, 10)}, prog.COp{Op: "recv"})
		}
		if k == 0 || rapid.Bool().Draw(t, "extra-send") {
			s.Client.Ops = append(s.Client.Ops, prog.COp{Op: "send", Msg: msg(9, 10)})
		}
		if c.Mode == "deadline" {
			s.DeadlineNS = T
			s.Client.Ops = append(s.Client.Ops, prog.COp{Op: "sleep", D: T + 1e9})
		} else {
			s.Client.Ops = append(s.Client.Ops, prog.COp{Op: "cancel"})
		}
		after(rapid.IntRange(1, 4).Draw(t, "nafter"))
	case "between-burst":
		// the handler sends a burst; the client takes a few messages, lets the
		// rest arrive (and be buffered wherever the transport or the library
		// buffers), then the context ends: the next Receive must not succeed
		n := rapid.IntRange(4, 30).Draw(t, "burst")
		s.Handler.Steps = append(s.Handler.Steps, prog.HStep{Op: "recv", N: 1})
		for r := 0; r < n; r++ {
			s.Handler.Steps = append(s.Handler.Steps, prog.HStep{Op: "send", Msg: msg(r, 5)})
		}
		s.Client.Ops = append(s.Client.Ops, prog.COp{Op: "send", Msg: msg(0, 10)})
		for r := 0; r < rapid.IntRange(1, n-1).Draw(t, "taken"); r++ {
			s.Client.Ops = append(s.Client.Ops, prog.COp{Op: "recv"})
		}
		if c.Mode == "deadline" {
			s.DeadlineNS = T
			s.Client.Ops = append(s.Client.Ops, prog.COp{Op: "sleep", D: T + 1e9})
		} else {
			s.Client.Ops = append(s.Client.Ops, prog.COp{Op: "sleep", D: 1e9}, prog.COp{Op: "cancel"})
		}
		s.Client.Ops = append(s.Client.Ops, prog.COp{Op: "recv"}, prog.COp{Op: "recv"})
		after(rapid.IntRange(0, 2).Draw(t, "nafter"))
	case "blocked-send":
		// the handler does not read (it waits for its context to end); the payload exceeds every buffer
		s.Handler.Final = &prog.ErrSpec{CtxErr: true}
		s.Handler.Drain = false
		size := 256 * 1024
		if s.Transport == "mem" {
			s.ReqWindow = 4096
		} else {
			size = 6 << 20
		}
		end(T)
		s.Client.Ops = append(s.Client.Ops, prog.COp{Op: "send", Msg: msg(0, 10)}, prog.COp{Op: "send", Msg: msg(1, size)})
		after(rapid.IntRange(1, 3).Draw(t, "nafter"))
	case "blocked-recv":
		k := rapid.IntRange(0, 2).Draw(t, "rounds")
		for r := 0; r < k; r++ {
			s.Handler.Steps = append(s.Handler.Steps, prog.HStep{Op: "recv", N: 1}, prog.HStep{Op: "send", Msg: msg(r, 10)})
			s.Client.Ops = append(s.Client.Ops, prog.COp{Op: "send", Msg: msg(r, 10)}, prog.COp{Op: "recv"})
		}
		if k == 0 {
			s.Client.Ops = append(s.Client.Ops, prog.COp{Op: "send", Msg: msg(9, 10)})
		}
		end(T)
		s.Client.Ops = append(s.Client.Ops, prog.COp{Op: "recv"}) // blocks: the handler waits for input
		after(rapid.IntRange(0, 3).Draw(t, "nafter"))
	case "tie":
		// the handler replies at exactly the instant the context ends
		d := rapid.SampledFrom([]int64{-1, 0, 1}).Draw(t, "skew")
		s.Handler.Steps = []prog.HStep{{Op: "recv", N: 1}, {Op: "sleep", D: T + d}, {Op: "send", Msg: msg(0, 10)}}
		end(T)
		s.Client.Ops = append(s.Client.Ops, prog.COp{Op: "send", Msg: msg(0, 10)}, prog.COp{Op: "recv"})
		after(rapid.IntRange(0, 3).Draw(t, "nafter"))
	case "typed-blocked", "typed-before":
		s.Cfg.Kind = rapid.SampledFrom([]string{prog.Unary, prog.Client, prog.Server}).Draw(t, "kind")
		s.Transport = rapid.SampledFrom([]string{"mem", "h1", "h2c"}).Draw(t, "transport")
		if c.Instant == "typed-blocked" && s.Transport == "h1" {
			// net/http's HTTP/1 server only notices a vanished client once the
			// request body has been read to EOF; whether the handler's context is
			// cancelled there is not up to connect-go
			s.Transport = "h2c"
		}
		s.Handler.Drain = false
		// like a real handler: wait for the context and return its error
		s.Handler.Final = &prog.ErrSpec{CtxErr: true}
		s.Handler.Resp = msg(5, 5)
		s.Client.Msgs = []prog.Msg{*msg(0, 10)}
		if c.Instant == "typed-before" {
			// (an already-expired deadline cannot be produced in virtual time
			// without an operation to sleep in; cancel only)
			c.Mode = "cancel"
			s.CancelNS = -1
		} else {
			end(T)
		}
	case "handler-returns":
		// no client-side cancellation: the handler conveys its context's error
		s.Cfg.Kind = rapid.SampledFrom(prog.Kinds).Draw(t, "kind")
		if s.Cfg.Kind != prog.Bidi {
			s.Transport = rapid.SampledFrom([]string{"mem", "h1", "h2c"}).Draw(t, "transport")
		}
		s.Handler.Drain = false
		s.Handler.Resp = msg(5, 5)
		lit := map[string]string{"cancel": "canceled", "deadline": "deadline"}[c.Mode]
		// (bare, or wrapped the way handlers add context: errors.Is still finds it)
		s.Handler.Final = &prog.ErrSpec{Literal: lit, Wrap: rapid.SampledFrom([]string{"", "w"}).Draw(t, "wrapCtxErr")}
		s.Client.Msgs = []prog.Msg{*msg(0, 10)}
		s.Client.Ops = []prog.COp{{Op: "send", Msg: msg(0, 10)}, {Op: "closereq"}, {Op: "recvall"}, {Op: "closeresp"}}
	}
	return c
}

func check(tt *testing.T, c Case) (pbt.Info, error) {
	var info pbt.Info
	s := c.S
	info.Label("instant:" + c.Instant)
	info.Label("mode:" + c.Mode)
	info.Label("proto:" + s.Cfg.Protocol)
	info.Label("transport:" + s.Transport)
	info.NonTrivial = strings.HasPrefix(c.Instant, "blocked") || strings.HasPrefix(c.Instant, "between") || c.Instant == "tie" || c.Instant == "typed-blocked"
	want := uint32(1)
	if c.Mode == "deadline" {
		want = 4
	}
	tr, err := sched.Run(tt, s)
	where := fmt.Sprintf("%s/%s (%s) %s/%s over %s, handler %+v, client ops %+v, cancel %d deadline %d, delays %v", c.Instant, c.Mode, codeName(want), s.Cfg.Protocol, s.Cfg.Kind, s.Transport, s.Handler, s.Client.Ops, s.CancelNS, s.DeadlineNS, s.Delays)
	if err != nil {
		return info, fmt.Errorf("%s: an operation never returned: %v", where, firstLines(err.Error(), 30))
	}
	res := tr.Res
	okCode := func(ev *prog.ErrView) bool { return ev != nil && ev.IsConnect && ev.Code == want }
	if c.Instant == "handler-returns" {
		if res.Err == nil || !okCode(res.Err) {
			return info, fmt.Errorf("%s: handler returned its context error, client received %v", where, res.Err)
		}
		return info, nil
	}
	if tr.CtxDoneAt < 0 {
		return info, fmt.Errorf("HARNESS: the context never ended in %s", where)
	}
	if s.Cfg.Kind != prog.Bidi {
		// typed call: CallUnary / CloseAndReceive / Receive-loop must fail with the code
		if res.CleanEnd || res.Err == nil {
			return info, fmt.Errorf("%s: the call succeeded although its context ended at %v while the handler was still running", where, tr.CtxDoneAt)
		}
		if !okCode(res.Err) {
			return info, fmt.Errorf("%s: the call failed with %v, want code %s", where, res.Err, codeName(want))
		}
		if res.CloseErr != nil && !okCode(res.CloseErr) {
			return info, fmt.Errorf("%s: Close failed with %v", where, res.CloseErr)
		}
	} else {
		// per-op analysis
		starts := make([]time.Duration, len(s.Client.Ops))
		for i := range s.Client.Ops {
			if i > 0 && i-1 < len(tr.OpTimes) {
				starts[i] = tr.OpTimes[i-1]
			}
		}
		seqCancelBefore := func(i int) bool {
			for j := 0; j < i; j++ {
				if s.Client.Ops[j].Op == "cancel" {
					return true
				}
			}
			return s.CancelNS < 0
		}
		sendGotEOF := false
		respClosed := false
		for _, o := range res.Ops {
			op := s.Client.Ops[o.Idx]
			if op.Op == "cancel" || op.Op == "sleep" || op.Op == "cancelafter" {
				continue
			}
			if o.Idx >= len(tr.OpTimes) {
				continue
			}
			if op.Op == "closeresp" {
				respClosed = true
			}
			if respClosed && (op.Op == "recv" || op.Op == "recvall") {
				// Receive after CloseResponse: the caller threw the rest of the
				// response (and with it the server's error) away; what such a
				// Receive reports is outside the property
				info.Label("recv-after-closeresponse")
				continue
			}
			startedAfter := starts[o.Idx] > tr.CtxDoneAt || (starts[o.Idx] == tr.CtxDoneAt && (seqCancelBefore(o.Idx) || c.Mode == "deadline" && c.Instant != "tie" && c.Instant != "blocked-recv" && c.Instant != "blocked-send"))
			endedAfter := tr.OpTimes[o.Idx] >= tr.CtxDoneAt
			if !endedAfter {
				continue // completed before the context ended
			}
			data := op.Op == "send" || op.Op == "recv" || op.Op == "recvall"
			if o.Err == nil {
				if startedAfter && data {
					return info, fmt.Errorf("%s: %s (op %d) started at %v, after the context ended at %v, and SUCCEEDED", where, op.Op, o.Idx, starts[o.Idx], tr.CtxDoneAt)
				}
				continue
			}
			if op.Op == "send" && o.Err.WrapsEOF {
				sendGotEOF = true
				continue // documented stream-closed error; Receive must carry the code
			}
			if (op.Op == "recv" || op.Op == "recvall") && o.Err.WrapsEOF {
				// the stream ended cleanly: the handler had finished, so the
				// property's precondition ("before the handler has finished") is void
				info.Label("handler-finished-first")
				continue
			}
			if !okCode(o.Err) {
				return info, fmt.Errorf("%s: %s (op %d, %v..%v, context ended at %v) failed with %v, want code %s", where, op.Op, o.Idx, starts[o.Idx], tr.OpTimes[o.Idx], tr.CtxDoneAt, o.Err, codeName(want))
			}
		}
		if sendGotEOF {
			info.Label("send-returned-eof-after-context-end")
		}
	}
	// the handler's context is cancelled as well
	// (handlers in these programs block on the request stream or on ctx.Done();
	// one that saw a clean end of the request first may return on its own)
	for _, hc := range tr.Calls {
		if !hc.Returned {
			return info, fmt.Errorf("%s: the handler is still running 30 s after the client's context ended: its context was not cancelled", where)
		}
	}
	if len(tr.Leftover) > 0 {
		return info, fmt.Errorf("%s: %d library goroutine(s) remain:\n%s", where, len(tr.Leftover), firstLines(tr.Leftover[0], 25))
	}
	return info, nil
}

func codeName(c uint32) string {
	if c == 1 {
		return "canceled"
	}
	return "deadline_exceeded"
}

func firstLines(s string, n int) string {
	lines := strings.Split(s, "\n")
	if len(lines) > n {
		lines = lines[:n]
	}
	return strings.Join(lines, "\n")
}

var spec = pbt.Spec[Case]{
	Prop: "C15", Name: "instants", Gen: gen, Check: check,
	Rule: "programs whose handler is still running when the client context is cancelled or expires at a generated instant class: before any operation; between operations k and k+1 (also in the middle of a burst of already-delivered messages); while a Send is blocked (handler not reading, payload larger than every buffer); while a Receive is blocked (handler waiting for input); within ±1 virtual ns of a handler reply (tie); during and before typed CallUnary/CloseAndReceive/server-stream calls; plus handlers that return the context package's own Canceled/DeadlineExceeded without client-side cancellation — × {cancel, deadline} × 3 protocols × {in-memory, real h2c / HTTP/1.1} with optional delays at yield points, in virtual time. Oracle: every data operation started after the context ended fails; every operation that fails at or after that instant has code canceled resp. deadline_exceeded (a Send may return the io.EOF-wrapping stream-closed error instead); nothing hangs; the handler's context is cancelled; no library goroutine remains. Non-trivial = instant falls inside a blocked operation, between two operations with the handler running, or is a tie",
}

func TestInstants(t *testing.T) { pbt.Run(t, spec) }
func TestReplay(t *testing.T) {
	pbt.ReplayMain(t, pbt.Replayer(spec), pbt.Replayer(specPartial), pbt.Replayer(specServerExpiry))
}

// ---------- the context ends while a frame has only partly arrived ----------

type PartialCase struct {
	Protocol  string `json:"protocol"`
	Kind      string `json:"kind"` // server | bidi
	Transport string `json:"transport"`
	Mode      string `json:"mode"`     // cancel | deadline
	Complete  int    `json:"complete"` // complete messages before the partial frame
	Partial   int    `json:"partial"`  // bytes of the next frame that arrive (1..4: inside the prefix)
}

func checkPartial(tt *testing.T, c PartialCase) (pbt.Info, error) {
	var info pbt.Info
	info.Label("proto:" + c.Protocol)
	info.Label("transport:" + c.Transport)
	info.NonTrivial = true
	if c.Partial < 5 {
		info.Label("context-ends-inside-prefix")
	} else {
		info.Label("context-ends-inside-payload")
	}
	want := uint32(1)
	if c.Mode == "deadline" {
		want = 4
	}
	var frames []byte
	var msgs []prog.Msg
	for i := 0; i < c.Complete; i++ {
		m := prog.Msg{N: int64(i + 1), TLen: 20, TSeed: i}
		msgs = append(msgs, m)
		frames = refwire.AppendFrame(frames, 0, refwire.EncodePing("proto", m.N, m.Text()))
	}
	next := refwire.AppendFrame(nil, 0, refwire.EncodePing("proto", 99, strings.Repeat("p", 40)))
	frames = append(frames, next[:min(c.Partial, len(next)-1)]...)
	raw := http.HandlerFunc(func(w http.ResponseWriter, r *http.Request) {
		w.Header().Set("Content-Type", r.Header.Get("Content-Type"))
		w.WriteHeader(200)
		_, _ = w.Write(frames)
		if f, ok := w.(http.Flusher); ok {
			f.Flush()
		}
		<-r.Context().Done() // a peer that stalls in mid-frame
	})
	var res *prog.CResult
	var left []string
	const T = 10 * time.Second
	berr := pbt.Bubble(tt, func() error {
		var hc connect.HTTPClient
		var pn *memnet.PipeNet
		if c.Transport == "h2c" {
			pn = memnet.NewPipeNet(raw, true)
			hc = pn.Client
		} else {
			hc = &memnet.Mem{Handler: raw}
		}
		ctx, cancel := context.WithCancel(context.Background())
		defer cancel()
		if c.Mode == "deadline" {
			var c2 context.CancelFunc
			ctx, c2 = context.WithTimeout(ctx, T)
			defer c2()
		} else {
			time.AfterFunc(T, cancel)
		}
		cfg := prog.Config{Protocol: c.Protocol, Codec: "proto", Kind: c.Kind}
		cp := &prog.ClientProg{Msgs: []prog.Msg{{N: 1}}}
		if c.Kind == prog.Bidi {
			cp.Ops = []prog.COp{{Op: "send", Msg: &prog.Msg{N: 1}}, {Op: "recvall"}, {Op: "recv"}, {Op: "closeresp"}}
		}
		res = prog.RunClient(ctx, hc, cfg, cp, cancel)
		time.Sleep(30 * time.Second)
		synctest.Wait()
		left = sched.Leftovers()
		cancel()
		if pn != nil {
			pn.Close()
		}
		time.Sleep(time.Second)
		synctest.Wait()
		return nil
	})
	where := fmt.Sprintf("%s %s over %s: %d complete messages, then %d bytes of the next frame, then the context ends (%s)", c.Protocol, c.Kind, c.Transport, c.Complete, c.Partial, c.Mode)
	if berr != nil {
		return info, fmt.Errorf("%s: an operation never returned: %v", where, firstLines(berr.Error(), 20))
	}
	if len(res.Received) != c.Complete {
		return info, fmt.Errorf("%s: %d complete messages delivered", where, len(res.Received))
	}
	if res.CleanEnd || res.Err == nil {
		return info, fmt.Errorf("%s: the call did not fail", where)
	}
	if !res.Err.IsConnect || res.Err.Code != want {
		return info, fmt.Errorf("%s: Receive failed with %v, want code %s", where, res.Err, codeName(want))
	}
	for _, o := range res.Ops {
		if o.Err != nil && o.Op != "send" && !(o.Err.IsConnect && o.Err.Code == want) {
			return info, fmt.Errorf("%s: %s failed with %v, want code %s", where, o.Op, o.Err, codeName(want))
		}
	}
	if res.CloseErr != nil && !(res.CloseErr.IsConnect && res.CloseErr.Code == want) {
		return info, fmt.Errorf("%s: Close failed with %v, want code %s", where, res.CloseErr, codeName(want))
	}
	if len(left) > 0 {
		return info, fmt.Errorf("%s: %d library goroutine(s) remain:\n%s", where, len(left), firstLines(left[0], 25))
	}
	return info, nil
}

var specPartial = pbt.Spec[PartialCase]{
	Prop: "C15", Name: "partial-frame",
	Gen: func(t *rapid.T) PartialCase {
		return PartialCase{
			Protocol:  rapid.SampledFrom(prog.Protocols).Draw(t, "protocol"),
			Kind:      rapid.SampledFrom([]string{prog.Server, prog.Bidi}).Draw(t, "kind"),
			Transport: rapid.SampledFrom([]string{"mem", "h2c"}).Draw(t, "transport"),
			Mode:      rapid.SampledFrom([]string{"cancel", "deadline"}).Draw(t, "mode"),
			Complete:  rapid.IntRange(0, 3).Draw(t, "complete"),
			Partial:   rapid.SampledFrom([]int{1, 2, 3, 4, 5, 6, 20}).Draw(t, "partial"),
		}
	},
	Check: checkPartial,
	Rule:  "a raw peer sends k complete messages and then only the first 1..4 bytes of the next envelope prefix (or part of its payload) and stalls; the client's context is cancelled or expires while Receive is blocked on the rest (3 protocols × {server, bidi} × {in-memory, real h2c}, virtual time); oracle: the complete messages are delivered, the blocked Receive and any later operation fail with canceled / deadline_exceeded, nothing hangs, no library goroutine remains; every case is non-trivial",
}

func TestPartialFrame(t *testing.T) { pbt.Run(t, specPartial) }

// ---------- the handler's deadline expires before / while it runs (server-side view) ----------

type ServerExpiryCase struct {
	Protocol string `json:"protocol"`
	Kind     string `json:"kind"`
	Mode     string `json:"mode"` // deadline (timeout header expires) | cancel (request context cancelled)
	SlowBody bool   `json:"slow_body"`
}

type slowReader struct {
	r     *bytes.Reader
	delay time.Duration
	slept bool
}

func (s *slowReader) Read(p []byte) (int, error) {
	if !s.slept {
		s.slept = true
		time.Sleep(s.delay)
	}
	return s.r.Read(p)
}

func checkServerExpiry(tt *testing.T, c ServerExpiryCase) (pbt.Info, error) {
	info := pbt.Info{NonTrivial: true}
	info.Label("proto:" + c.Protocol)
	info.Label("kind:" + c.Kind)
	info.Label("mode:" + c.Mode)
	want := uint32(4)
	if c.Mode == "cancel" {
		want = 1
	}
	log := &prog.HLog{}
	hp := &prog.HandlerProg{Final: &prog.ErrSpec{CtxErr: true}, Resp: &prog.Msg{N: 1}}
	if c.Kind == prog.Client || c.Kind == prog.Bidi {
		hp.Steps = []prog.HStep{{Op: "recv", N: 1}}
	}
	h := prog.NewHandler(c.Kind, hp, log)
	spec := &refwire.ReqSpec{Protocol: c.Protocol, Kind: c.Kind, Codec: "proto", Msgs: [][]byte{refwire.EncodePing("proto", 1, "x")}}
	if c.Mode == "deadline" {
		spec.Timeout = "5m" // 5 ms for gRPC
		if c.Protocol == "connect" {
			spec.Timeout = "5"
		}
	}
	req := refwire.BuildRequest(spec)
	var rec *memnet.Recorded
	berr := pbt.Bubble(tt, func() error {
		ctx, cancel := context.WithCancel(context.Background())
		defer cancel()
		if c.Mode == "cancel" {
			time.AfterFunc(5*time.Millisecond, cancel)
		}
		var body io.Reader = bytes.NewReader(req.Body)
		if c.SlowBody {
			// the request body arrives only after the deadline / cancellation
			body = &slowReader{r: bytes.NewReader(req.Body), delay: 20 * time.Millisecond}
		}
		rec = memnet.Serve(h, "POST", prog.Procedure(c.Kind), req.Header, body, memnet.ServeOpts{Ctx: ctx})
		return nil
	})
	where := fmt.Sprintf("%s %s handler whose context ends (%s) %s", c.Protocol, c.Kind, c.Mode, map[bool]string{true: "before the request body has arrived (before user code runs)", false: "while user code waits on it"}[c.SlowBody])
	if berr != nil {
		return info, fmt.Errorf("%s: %v", where, berr)
	}
	if rec.Panicked {
		return info, fmt.Errorf("%s: panic %v", where, rec.PanicValue)
	}
	dec, derr := refwire.DecodeResponse(c.Protocol, c.Kind, req.Header.Get("Content-Type"), &refwire.Response{Status: rec.Status, Header: rec.Header, Body: rec.Body, Trailer: rec.Trailer})
	if derr != nil {
		return info, fmt.Errorf("%s: response not well-formed: %v", where, derr)
	}
	if dec.Status.Code != want {
		return info, fmt.Errorf("%s: the response carries code %d %q, want %s", where, dec.Status.Code, dec.Status.Message, codeName(want))
	}
	return info, nil
}

var specServerExpiry = pbt.Spec[ServerExpiryCase]{
	Prop: "C15", Name: "server-side-expiry",
	Gen: func(t *rapid.T) ServerExpiryCase {
		return ServerExpiryCase{
			Protocol: rapid.SampledFrom(prog.Protocols).Draw(t, "protocol"),
			Kind:     rapid.SampledFrom(prog.Kinds).Draw(t, "kind"),
			Mode:     rapid.SampledFrom([]string{"deadline", "cancel"}).Draw(t, "mode"),
			SlowBody: rapid.Bool().Draw(t, "slowbody"),
		}
	},
	Check: checkServerExpiry,
	Rule:  "reference-client requests served synchronously in virtual time: the handler's context ends through the propagated timeout (5 ms) or through cancellation of the request context, either before the request body has arrived (so before user code is invoked) or while user code waits on ctx.Done() and returns ctx.Err(); oracle (independent decoder on the raw response): the status is deadline_exceeded resp. canceled; 3 protocols × 4 kinds; every case is non-trivial",
}

func TestServerSideExpiry(t *testing.T) { pbt.Run(t, specServerExpiry) }
