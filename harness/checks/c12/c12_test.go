package c12

import (
	"bytes"
	"context"
	"fmt"
	"net/http"
	"sort"
	"strings"
	"sync"
	"testing"

	connect "github.com/bufbuild/connect-go"
	pingv1 "github.com/bufbuild/connect-go/internal/gen/connect/ping/v1"
	"github.com/bufbuild/connect-go/internal/gen/connect/ping/v1/pingv1connect"
	"github.com/bufbuild/connect-go/verif/memnet"
	"github.com/bufbuild/connect-go/verif/pbt"
	"github.com/bufbuild/connect-go/verif/prog"
	"github.com/bufbuild/connect-go/verif/refwire"
	"google.golang.org/protobuf/proto"
	"pgregory.net/rapid"
)

type Case struct {
	Kind        string   `json:"kind"`
	Method      string   `json:"method"`
	ProtoMajor  int      `json:"proto_major"`
	ContentType string   `json:"content_type"`
	NoCT        bool     `json:"no_ct,omitempty"`
	Codecs      []string `json:"codecs"` // extra codec names registered on the handler (defaults proto, json are always there)
	Valid       bool     `json:"valid"`  // body is a valid request for the advertised type picked by the generator
	VProtocol   string   `json:"vprotocol,omitempty"`
	VCodec      string   `json:"vcodec,omitempty"`
	// ContentLength: the request announces its body size (fixed-size clients, curl)
	ContentLength bool `json:"content_length,omitempty"`
}

type namedCodec struct{ name string }

func (c namedCodec) Name() string { return c.name }
func (c namedCodec) Marshal(m any) ([]byte, error) {
	return proto.Marshal(m.(proto.Message))
}
func (c namedCodec) Unmarshal(b []byte, m any) error { return proto.Unmarshal(b, m.(proto.Message)) }

// advertised is the model of the accepted Content-Types.
func advertised(kind string, codecs []string) []string {
	names := map[string]bool{"proto": true, "json": true}
	for _, c := range codecs {
		if c != "" {
			names[c] = true
		}
	}
	set := map[string]bool{}
	for n := range names {
		if kind == prog.Unary {
			set["application/"+n] = true
		} else {
			set["application/connect+"+n] = true
		}
		set["application/grpc+"+n] = true
		set["application/grpc-web+"+n] = true
	}
	if names["proto"] {
		set["application/grpc"] = true
		set["application/grpc-web"] = true
	}
	out := make([]string, 0, len(set))
	for s := range set {
		out = append(out, s)
	}
	sort.Strings(out)
	return out
}

// claims counts how many protocols claim a Content-Type (custom codec names
// such as "grpc+proto" can make one string belong to two protocols; which one
// wins is not fixed by the property).
func claims(kind string, codecs []string, ct string) int {
	names := append([]string{"proto", "json"}, codecs...)
	n := 0
	cp := "application/connect+"
	if kind == prog.Unary {
		cp = "application/"
	}
	for _, prefix := range []string{cp, "application/grpc+", "application/grpc-web+"} {
		hit := false
		for _, name := range names {
			if name != "" && ct == prefix+name {
				hit = true
			}
		}
		if prefix != cp && ct == strings.TrimSuffix(prefix, "+") {
			hit = true
		}
		if hit {
			n++
		}
	}
	return n
}

type counter struct {
	mu      sync.Mutex
	handler int
	icept   int
	specs   []connect.Spec
}

type countIC struct{ c *counter }

func (i countIC) WrapUnary(next connect.UnaryFunc) connect.UnaryFunc {
	return func(ctx context.Context, req connect.AnyRequest) (connect.AnyResponse, error) {
		i.c.mu.Lock()
		i.c.icept++
		i.c.specs = append(i.c.specs, req.Spec())
		i.c.mu.Unlock()
		return next(ctx, req)
	}
}
func (i countIC) WrapStreamingClient(next connect.StreamingClientFunc) connect.StreamingClientFunc {
	return func(ctx context.Context, s connect.Spec) connect.StreamingClientConn {
		i.c.mu.Lock()
		i.c.icept++
		i.c.specs = append(i.c.specs, s)
		i.c.mu.Unlock()
		return next(ctx, s)
	}
}
func (i countIC) WrapStreamingHandler(next connect.StreamingHandlerFunc) connect.StreamingHandlerFunc {
	return func(ctx context.Context, conn connect.StreamingHandlerConn) error {
		i.c.mu.Lock()
		i.c.icept++
		i.c.specs = append(i.c.specs, conn.Spec())
		i.c.mu.Unlock()
		return next(ctx, conn)
	}
}

type passIC struct{}

func (passIC) WrapUnary(n connect.UnaryFunc) connect.UnaryFunc { return n }
func (passIC) WrapStreamingClient(n connect.StreamingClientFunc) connect.StreamingClientFunc {
	return n
}
func (passIC) WrapStreamingHandler(n connect.StreamingHandlerFunc) connect.StreamingHandlerFunc {
	return n
}

func streamType(kind string) connect.StreamType {
	switch kind {
	case prog.Client:
		return connect.StreamTypeClient
	case prog.Server:
		return connect.StreamTypeServer
	case prog.Bidi:
		return connect.StreamTypeBidi
	}
	return connect.StreamTypeUnary
}

func check(tt *testing.T, c Case) (pbt.Info, error) {
	var info pbt.Info
	adv := advertised(c.Kind, c.Codecs)
	advSet := map[string]bool{}
	for _, a := range adv {
		advSet[a] = true
	}
	cnt := &counter{}
	var opts []connect.HandlerOption
	for _, name := range c.Codecs {
		opts = append(opts, connect.WithCodec(namedCodec{name}))
	}
	opts = append(opts, connect.WithInterceptors(countIC{cnt}))
	log := &prog.HLog{}
	h := prog.NewHandler(c.Kind, &prog.HandlerProg{Drain: true, Resp: &prog.Msg{N: 1}}, log, opts...)
	hdr := http.Header{}
	if !c.NoCT {
		hdr.Set("Content-Type", c.ContentType)
	}
	var body []byte
	if c.Valid {
		req := refwire.BuildRequest(&refwire.ReqSpec{Protocol: c.VProtocol, Kind: c.Kind, Codec: "proto", Msgs: [][]byte{refwire.EncodePing("proto", 3, "x")}})
		body = req.Body
		if c.VProtocol == "grpc" {
			hdr.Set("Te", "trailers")
		}
	}
	rec := memnet.Serve(h, c.Method, prog.Procedure(c.Kind), hdr, bytes.NewReader(body), memnet.ServeOpts{ProtoMajor: c.ProtoMajor, HaveContentLength: c.ContentLength, ContentLength: int64(len(body))})
	where := fmt.Sprintf("%s handler (extra codecs %q), %s HTTP/%d Content-Type %q", c.Kind, c.Codecs, c.Method, c.ProtoMajor, c.ContentType)
	if rec.Panicked {
		return info, fmt.Errorf("%s: ServeHTTP panicked: %v", where, rec.PanicValue)
	}
	calls := len(log.Snapshot())
	cnt.mu.Lock()
	icalls := cnt.icept
	specs := append([]connect.Spec(nil), cnt.specs...)
	cnt.mu.Unlock()
	info.Label("kind:" + c.Kind)
	info.Label(fmt.Sprintf("status:%d", rec.Status))
	near := false
	for _, a := range adv {
		if a != c.ContentType && editClose(a, c.ContentType) {
			near = true
		}
	}
	if near {
		info.Label("near-miss-content-type")
	}
	if len(c.Codecs) > 0 {
		info.Label("custom-codecs")
	}
	info.NonTrivial = near || len(c.Codecs) > 0
	ct := c.ContentType
	if c.NoCT {
		ct = ""
	}
	nonPost := c.Method != "POST"
	badVersion := c.Kind == prog.Bidi && c.ProtoMajor < 2
	rejected := func(status int) error {
		if calls != 0 || icalls != 0 {
			return fmt.Errorf("%s: answered %d but user code ran %d times and interceptors %d times", where, status, calls, icalls)
		}
		return nil
	}
	switch {
	case nonPost || badVersion:
		ok405 := nonPost && rec.Status == 405
		ok505 := badVersion && rec.Status == 505
		if !ok405 && !ok505 {
			return info, fmt.Errorf("%s: answered %d, want %s", where, rec.Status, map[bool]string{true: "405", false: "505"}[nonPost])
		}
		if rec.Status == 405 {
			if got := rec.Header.Values("Allow"); len(got) != 1 || got[0] != "POST" {
				return info, fmt.Errorf("%s: 405 without 'Allow: POST' (got %q)", where, got)
			}
		}
		return info, rejected(rec.Status)
	case !advSet[ct]:
		if rec.Status != 415 {
			return info, fmt.Errorf("%s: Content-Type is not advertised (%v) but the handler answered %d instead of 415", where, adv, rec.Status)
		}
		got := rec.Header.Values("Accept-Post")
		if len(got) != 1 {
			return info, fmt.Errorf("%s: 415 with %d Accept-Post headers", where, len(got))
		}
		list := strings.Split(got[0], ", ")
		sort.Strings(list)
		if strings.Join(list, "|") != strings.Join(adv, "|") {
			return info, fmt.Errorf("%s: Accept-Post lists %q, model says %q", where, list, adv)
		}
		return info, rejected(415)
	default:
		if rec.Status == 415 || rec.Status == 405 || rec.Status == 505 {
			return info, fmt.Errorf("%s: Content-Type is advertised but the handler answered %d", where, rec.Status)
		}
		if calls > 1 || icalls > 1 {
			return info, fmt.Errorf("%s: user code ran %d times, interceptors %d times", where, calls, icalls)
		}
		if c.Valid && claims(c.Kind, c.Codecs, ct) == 1 {
			if calls != 1 || icalls != 1 {
				return info, fmt.Errorf("%s: valid request: user code ran %d times, interceptor %d times (want 1/1); status %d body %q", where, calls, icalls, rec.Status, rec.Body)
			}
			hc := log.Snapshot()[0]
			for _, s := range append(specs, connect.Spec{Procedure: hc.Procedure, StreamType: hc.StreamType}) {
				if s.Procedure != prog.Procedure(c.Kind) || s.StreamType != streamType(c.Kind) || s.IsClient {
					return info, fmt.Errorf("%s: Spec seen on the handler side is %+v, handler was built with %s / %v", where, s, prog.Procedure(c.Kind), streamType(c.Kind))
				}
			}
		}
	}
	return info, nil
}

// editClose: b is within edit distance 2 of a (cheap bound).
func editClose(a, b string) bool {
	if abs(len(a)-len(b)) > 2 {
		return false
	}
	la, lb := len(a), len(b)
	prev := make([]int, lb+1)
	for j := range prev {
		prev[j] = j
	}
	for i := 1; i <= la; i++ {
		cur := make([]int, lb+1)
		cur[0] = i
		for j := 1; j <= lb; j++ {
			cost := 1
			if a[i-1] == b[j-1] {
				cost = 0
			}
			cur[j] = min(prev[j]+1, cur[j-1]+1, prev[j-1]+cost)
		}
		prev = cur
	}
	return prev[lb] <= 2
}

func abs(x int) int {
	if x < 0 {
		return -x
	}
	return x
}

var codecNameGen = rapid.OneOf(
	rapid.SampledFrom([]string{"grpc", "grpc-web", "connect+proto", "proto", "json", "x", "msgpack", "grpc+proto", "connect", "grpc-web+json", "protoV2", "JSON", "Proto"}),
	rapid.StringMatching(`[a-z][a-z0-9.+-]{0,8}`),
	rapid.StringMatching(`[a-zA-Z][a-zA-Z0-9.+-]{0,8}`),
)

func gen(t *rapid.T) Case {
	c := Case{Kind: rapid.SampledFrom(prog.Kinds).Draw(t, "kind")}
	c.Method = rapid.SampledFrom([]string{"POST", "POST", "POST", "POST", "GET", "PUT", "HEAD", "OPTIONS", "DELETE", "PATCH", "post", "Post", "POSTS", "CONNECT", "X"}).Draw(t, "method")
	c.ProtoMajor = rapid.SampledFrom([]int{1, 2, 2, 2, 3}).Draw(t, "major")
	c.ContentLength = rapid.Bool().Draw(t, "contentLength")
	n := rapid.IntRange(0, 3).Draw(t, "ncodecs")
	if n == 3 {
		n = 0
	}
	for i := 0; i < n; i++ {
		c.Codecs = append(c.Codecs, codecNameGen.Draw(t, "codec"))
	}
	adv := advertised(c.Kind, c.Codecs)
	switch rapid.IntRange(0, 5).Draw(t, "ctclass") {
	case 0:
		// valid request for a default codec
		c.Valid = true
		c.VProtocol = rapid.SampledFrom(prog.Protocols).Draw(t, "vproto")
		c.ContentType = refwire.ContentType(c.VProtocol, c.Kind, "proto")
	case 1:
		c.ContentType = rapid.SampledFrom(adv).Draw(t, "adv")
	case 2:
		// near miss
		base := rapid.SampledFrom(adv).Draw(t, "base")
		switch rapid.IntRange(0, 8).Draw(t, "miss") {
		case 0:
			c.ContentType = strings.ToUpper(base[:1]) + base[1:]
		case 1:
			c.ContentType = base + "; charset=utf-8"
		case 2:
			c.ContentType = base + " "
		case 3:
			c.ContentType = strings.Replace(base, "+", "", 1)
		case 4:
			c.ContentType = base + "+"
		case 5:
			c.ContentType = base[:rapid.IntRange(0, len(base)-1).Draw(t, "cut")]
		case 6:
			c.ContentType = base + rapid.StringMatching(`[a-z]{1,2}`).Draw(t, "suffix")
		case 7:
			c.ContentType = " " + base
		default:
			c.ContentType = strings.ToUpper(base)
		}
	case 3:
		// another kind's / protocol's prefix with this codec
		name := rapid.SampledFrom(append([]string{"proto", "json"}, c.Codecs...)).Draw(t, "name")
		prefix := rapid.SampledFrom([]string{"application/", "application/connect+", "application/grpc+", "application/grpc-web+", "application/grpc-web-text+", "text/", ""}).Draw(t, "prefix")
		c.ContentType = prefix + name
	case 4:
		c.NoCT = rapid.Bool().Draw(t, "noct")
		c.ContentType = rapid.SampledFrom([]string{"", "application/grpc", "application/grpc-web", "application/grpc-web-text", "application/octet-stream", "text/plain", "*/*", "application/connect", "application/"}).Draw(t, "bare")
	default:
		c.ContentType = rapid.String().Draw(t, "random")
	}
	if c.NoCT {
		c.ContentType = ""
	}
	return c
}

var spec = pbt.Spec[Case]{
	Prop: "C12", Name: "dispatch", Gen: gen, Check: check,
	Rule: "crafted requests served synchronously: method ∈ {POST, other verbs, case variants, random tokens} × HTTP major ∈ {1,2,3} × Content-Type ∈ {advertised, near misses (case, parameters, blanks, missing/extra '+', truncation, suffixes), other protocols' prefixes with this codec, bare types, absent, random} × handler codec sets (defaults ∪ up to 2 custom names incl. colliding ones such as 'grpc', 'connect+proto') × 4 kinds; oracle = model of the statement (405+Allow, 505, 415+Accept-Post == model set, advertised ⇔ accepted, rejected ⇒ user code and interceptors never ran, valid ⇒ exactly once with the built-in Spec); non-trivial = Content-Type within edit distance 2 of an advertised one OR custom codecs registered",
}

func TestDispatch(t *testing.T) { pbt.Run(t, spec) }

// ---- client Spec == handler Spec across URL shapes ----

type SpecCase struct {
	Kind     string `json:"kind"`
	Protocol string `json:"protocol"`
	Base     string `json:"base"`
	Gen      bool   `json:"generated_client"`
}

func checkSpec(tt *testing.T, c SpecCase) (pbt.Info, error) {
	info := pbt.Info{NonTrivial: strings.Count(c.Base, "/") > 2}
	hcnt, ccnt := &counter{}, &counter{}
	cfg := prog.Config{Protocol: c.Protocol, Codec: "proto", Kind: c.Kind}
	// two separate WithInterceptors options, applied (by the generated
	// constructors) to every procedure of the service
	copts := append(cfg.ClientOptions(), connect.WithInterceptors(countIC{ccnt}), connect.WithInterceptors(passIC{}))
	var procedure string
	var h http.Handler
	log := &prog.HLog{}
	if c.Gen {
		// generated client and handler for the Ping service
		info.Label("generated-client")
		mux := http.NewServeMux()
		path, hh := pingv1connect.NewPingServiceHandler(pingServer{}, connect.WithInterceptors(countIC{hcnt}), connect.WithInterceptors(passIC{}))
		mux.Handle(path, hh)
		h = mux
		mem := &memnet.Mem{Handler: stripPrefix(h)}
		cl := pingv1connect.NewPingServiceClient(mem, c.Base, copts...)
		switch c.Kind {
		case prog.Unary:
			procedure = "/connect.ping.v1.PingService/Ping"
			if _, err := cl.Ping(context.Background(), connect.NewRequest(&pingv1.PingRequest{Number: 1})); err != nil {
				return info, fmt.Errorf("generated client Ping via %q: %v", c.Base, err)
			}
		case prog.Client:
			procedure = "/connect.ping.v1.PingService/Sum"
			s := cl.Sum(context.Background())
			_ = s.Send(&pingv1.SumRequest{Number: 1})
			if _, err := s.CloseAndReceive(); err != nil {
				return info, fmt.Errorf("generated client Sum via %q: %v", c.Base, err)
			}
		case prog.Server:
			procedure = "/connect.ping.v1.PingService/CountUp"
			s, err := cl.CountUp(context.Background(), connect.NewRequest(&pingv1.CountUpRequest{Number: 2}))
			if err != nil {
				return info, err
			}
			for s.Receive() {
			}
			if err := s.Err(); err != nil {
				return info, fmt.Errorf("generated client CountUp via %q: %v", c.Base, err)
			}
			_ = s.Close()
		default:
			procedure = "/connect.ping.v1.PingService/CumSum"
			s := cl.CumSum(context.Background())
			_ = s.Send(&pingv1.CumSumRequest{Number: 1})
			_ = s.CloseRequest()
			for {
				if _, err := s.Receive(); err != nil {
					break
				}
			}
			_ = s.CloseResponse()
		}
	} else {
		procedure = prog.Procedure(c.Kind)
		hh := prog.NewHandler(c.Kind, &prog.HandlerProg{Drain: true, Resp: &prog.Msg{N: 1}}, log, connect.WithInterceptors(countIC{hcnt}))
		mem := &memnet.Mem{Handler: hh}
		cl := connect.NewClient[pingv1.PingRequest, pingv1.PingResponse](mem, strings.TrimRight(c.Base, "/")+procedure, copts...)
		cp := &prog.ClientProg{Msgs: []prog.Msg{{N: 1}}}
		if c.Kind == prog.Bidi {
			cp.Ops = []prog.COp{{Op: "send", Msg: &prog.Msg{N: 1}}, {Op: "closereq"}, {Op: "recvall"}, {Op: "closeresp"}}
		}
		res := prog.RunClientWith(context.Background(), cl, c.Kind, cp, nil)
		if res.Err != nil {
			return info, fmt.Errorf("call via %q failed: %v", c.Base, res.Err)
		}
	}
	for side, cn := range map[string]*counter{"handler": hcnt, "client": ccnt} {
		cn.mu.Lock()
		n, specs := cn.icept, append([]connect.Spec(nil), cn.specs...)
		cn.mu.Unlock()
		if n != 1 {
			return info, fmt.Errorf("%s interceptor ran %d times for one %s call via %q", side, n, c.Kind, c.Base)
		}
		s := specs[0]
		if s.Procedure != procedure || s.StreamType != streamType(c.Kind) || s.IsClient != (side == "client") {
			return info, fmt.Errorf("%s interceptor saw Spec %+v for a %s call via base %q; want procedure %s, stream type %v", side, s, c.Kind, c.Base, procedure, streamType(c.Kind))
		}
	}
	return info, nil
}

// stripPrefix routes by the last two path segments, like a reverse proxy that
// strips a mount prefix would.
func stripPrefix(h http.Handler) http.Handler {
	return http.HandlerFunc(func(w http.ResponseWriter, r *http.Request) {
		segs := strings.Split(r.URL.Path, "/")
		if len(segs) >= 2 {
			r2 := r.Clone(r.Context())
			r2.URL.Path = "/" + segs[len(segs)-2] + "/" + segs[len(segs)-1]
			h.ServeHTTP(w, r2)
			return
		}
		h.ServeHTTP(w, r)
	})
}

type pingServer struct {
	pingv1connect.UnimplementedPingServiceHandler
}

func (pingServer) Ping(ctx context.Context, r *connect.Request[pingv1.PingRequest]) (*connect.Response[pingv1.PingResponse], error) {
	return connect.NewResponse(&pingv1.PingResponse{Number: r.Msg.Number}), nil
}
func (pingServer) Sum(ctx context.Context, s *connect.ClientStream[pingv1.SumRequest]) (*connect.Response[pingv1.SumResponse], error) {
	for s.Receive() {
	}
	return connect.NewResponse(&pingv1.SumResponse{}), nil
}
func (pingServer) CountUp(ctx context.Context, r *connect.Request[pingv1.CountUpRequest], s *connect.ServerStream[pingv1.CountUpResponse]) error {
	return s.Send(&pingv1.CountUpResponse{Number: 1})
}
func (pingServer) CumSum(ctx context.Context, s *connect.BidiStream[pingv1.CumSumRequest, pingv1.CumSumResponse]) error {
	for {
		if _, err := s.Receive(); err != nil {
			return nil
		}
	}
}

var specSpec = pbt.Spec[SpecCase]{
	Prop: "C12", Name: "spec-agreement",
	Gen: func(t *rapid.T) SpecCase {
		c := SpecCase{Kind: rapid.SampledFrom(prog.Kinds).Draw(t, "kind"), Protocol: rapid.SampledFrom(prog.Protocols).Draw(t, "protocol"), Gen: rapid.Bool().Draw(t, "generated")}
		host := rapid.SampledFrom([]string{"http://h.test", "https://h.test:8443", "http://127.0.0.1:80"}).Draw(t, "host")
		n := rapid.IntRange(0, 3).Draw(t, "nseg")
		p := ""
		for i := 0; i < n; i++ {
			p += "/" + rapid.SampledFrom([]string{"api", "v1", "connect.ping.v1.PingService", "a.b", "x-y_z", "Ping"}).Draw(t, "seg")
		}
		slashes := strings.Repeat("/", rapid.IntRange(0, 2).Draw(t, "trailing"))
		if !c.Gen && len(slashes) > 1 {
			slashes = "/"
		}
		c.Base = host + p + slashes
		return c
	},
	Check: checkSpec,
	Rule:  "base URLs with 0..3 path-prefix segments (incl. segments that look like service or method names) and 0..2 trailing slashes × 4 kinds × 3 protocols, through connect.NewClient and through the generated NewPingServiceClient/NewPingServiceHandler; oracle: client-side and handler-side interceptors each run exactly once and see the same canonical Procedure and StreamType; non-trivial = base URL has a path prefix",
}

func TestSpecAgreement(t *testing.T) { pbt.Run(t, specSpec) }

func TestReplay(t *testing.T) { pbt.ReplayMain(t, pbt.Replayer(spec), pbt.Replayer(specSpec)) }
