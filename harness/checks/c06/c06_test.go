package c06

import (
	"bytes"
	"context"
	"encoding/binary"
	"encoding/json"
	"errors"
	"fmt"
	"io"
	"net/http"
	"sort"
	"strings"
	"testing"

	"github.com/bufbuild/connect-go/verif/bodies"
	"github.com/bufbuild/connect-go/verif/comp"
	"github.com/bufbuild/connect-go/verif/memnet"
	"github.com/bufbuild/connect-go/verif/pbt"
	"github.com/bufbuild/connect-go/verif/prog"
	"github.com/bufbuild/connect-go/verif/refwire"
	"pgregory.net/rapid"
)

// Case is a raw HTTP response handed to a client call.
type Case struct {
	Protocol   string    `json:"protocol"`
	Codec      string    `json:"codec"`
	Kind       string    `json:"kind"`
	Status     int       `json:"status"`
	Header     []prog.KV `json:"header"`
	Body       []byte    `json:"body"`
	Trailer    []prog.KV `json:"trailer"`
	ProtoMajor int       `json:"proto_major"`
	Origin     string    `json:"origin"`
	// ReadErr: after the body bytes the transport reports this failure instead
	// of a clean end ("unexpected": io.ErrUnexpectedEOF, "reset": a connection reset)
	ReadErr string `json:"read_err,omitempty"`
}

func kvs(h http.Header) []prog.KV {
	keys := make([]string, 0, len(h))
	for k := range h {
		keys = append(keys, k)
	}
	sort.Strings(keys)
	var out []prog.KV
	for _, k := range keys {
		for _, v := range h[k] {
			out = append(out, prog.KV{K: k, V: v})
		}
	}
	return out
}

func setKV(list []prog.KV, k, v string) []prog.KV {
	out := list[:0:0]
	for _, kv := range list {
		if !strings.EqualFold(kv.K, k) {
			out = append(out, kv)
		}
	}
	return append(out, prog.KV{K: k, V: v})
}

func rawHeader(list []prog.KV) http.Header {
	h := http.Header{}
	for _, kv := range list {
		h[kv.K] = append(h[kv.K], kv.V)
	}
	return h
}

func run(tt *testing.T, c Case) (*prog.CResult, error) {
	var res *prog.CResult
	err := pbt.Bubble(tt, func() error {
		var body io.Reader = bytes.NewReader(c.Body)
		switch c.ReadErr {
		case "unexpected":
			body = &memnet.ChunkReader{Data: c.Body, EndErr: io.ErrUnexpectedEOF}
		case "reset":
			body = &memnet.ChunkReader{Data: c.Body, EndErr: errors.New("read tcp 10.0.0.1:443: read: connection reset by peer")}
		}
		sc := memnet.NewScript(c.Status, rawHeader(c.Header), body, rawHeader(c.Trailer))
		sc.ProtoMajor = c.ProtoMajor
		cfg := prog.Config{Protocol: c.Protocol, Codec: c.Codec, Kind: c.Kind, CAccept: []string{"deflate"}}
		cp := &prog.ClientProg{Msgs: []prog.Msg{{N: 1}}}
		if c.Kind == prog.Bidi {
			cp.Ops = []prog.COp{{Op: "send", Msg: &prog.Msg{N: 1}}, {Op: "closereq"}, {Op: "recvall"}, {Op: "closeresp"}}
		}
		ctx, cancel := context.WithCancel(context.Background())
		defer cancel()
		res = prog.RunClient(ctx, sc, cfg, cp, cancel)
		sc.WaitRequest()
		return nil
	})
	return res, err
}

func coded(what string, v *prog.ErrView) error {
	if v == nil {
		return nil
	}
	if !v.IsConnect {
		return fmt.Errorf("%s error cannot be inspected as a *connect.Error: %s", what, v)
	}
	if v.Code == 0 {
		return fmt.Errorf("%s error has the zero (OK) code: %s", what, v)
	}
	return nil
}

// agreed HTTP status → code entries (identical in every published table)
var agreed = map[int]uint32{401: 16, 403: 7, 404: 12, 429: 14, 502: 14, 503: 14, 504: 14}

func hasProtocolError(c Case) bool {
	if c.Protocol == "grpc" || c.Protocol == "grpcweb" {
		// a grpc-status in headers, trailers or (gRPC-Web) a body that may hold a
		// trailer frame is a protocol-level status and may take precedence
		for _, kv := range append(append([]prog.KV(nil), c.Header...), c.Trailer...) {
			if strings.EqualFold(kv.K, "Grpc-Status") && strings.Trim(kv.V, "0") != "" {
				return true // (a status of zero is not an error: the HTTP status decides)
			}
		}
		return c.Protocol == "grpcweb" && len(c.Body) > 0
	}
	// an encoding header naming an algorithm the client lacks makes the body
	// unreadable; which of the two errors wins is not fixed by the property
	for _, kv := range c.Header {
		if strings.HasSuffix(strings.ToLower(kv.K), "encoding") && !strings.Contains(strings.ToLower(kv.K), "accept") {
			switch kv.V {
			case "", "identity", "gzip", "deflate":
			default:
				return true
			}
		}
	}
	if c.Protocol != "connect" || c.Kind != prog.Unary {
		return false
	}
	body := c.Body
	h := rawHeader(c.Header)
	if enc := http.Header(canon(h)).Get("Content-Encoding"); enc != "" && enc != "identity" {
		if d, err := comp.Decompress(enc, body); err == nil {
			body = d
		}
	}
	// any JSON object with a non-empty string "code" is an attempt at a
	// protocol-level error (code_<n> spellings and unknown names are a grey zone)
	var obj struct {
		Code *string `json:"code"`
	}
	if err := json.Unmarshal(body, &obj); err == nil && obj.Code != nil && *obj.Code != "" {
		// a defined code name, or the code_<n> spelling (which values of n are
		// accepted is a grey zone); any other string is not a Connect code, so
		// the body is no protocol-level error and the HTTP status decides
		if _, ok := refwire.CodeFromName(*obj.Code); ok {
			return true
		}
		if rest, ok := strings.CutPrefix(*obj.Code, "code_"); ok && rest != "" && strings.Trim(rest, "0123456789+-") == "" {
			return true
		}
		return false
	}
	_, err := refwire.ParseConnectError(body)
	return err == nil
}

func canon(h http.Header) http.Header {
	out := http.Header{}
	for k, v := range h {
		ck := http.CanonicalHeaderKey(k)
		out[ck] = append(out[ck], v...)
	}
	return out
}

func check(tt *testing.T, c Case) (pbt.Info, error) {
	var info pbt.Info
	info.Label("proto:" + c.Protocol)
	info.Label("kind:" + c.Kind)
	info.Label("origin:" + c.Origin)
	info.NonTrivial = c.Origin != "valid" && (len(c.Body) > 0 || c.Status != 200)
	if c.Origin == "json" && c.Protocol == "connect" && c.Kind == prog.Unary {
		// measured, not assumed: most of the hostile documents are meant to be
		// syntactically valid JSON (a generator step once corrupted all of them)
		if json.Valid(c.Body) {
			info.Label("json-origin-body-is-valid-json")
		} else {
			info.Label("json-origin-body-is-not-json")
		}
	}
	res, berr := run(tt, c)
	where := fmt.Sprintf("%s/%s/%s client given HTTP %d, headers %v, %d body bytes %q, trailers %v, body read ending %q", c.Protocol, c.Codec, c.Kind, c.Status, c.Header, len(c.Body), trunc(c.Body, 80), c.Trailer, c.ReadErr)
	if berr != nil {
		return info, fmt.Errorf("%s: %v", where, berr)
	}
	if res.CleanEnd && res.Err != nil {
		return info, fmt.Errorf("%s: both success and error %v", where, res.Err)
	}
	for what, ev := range map[string]*prog.ErrView{"call": res.Err, "close": res.CloseErr} {
		if err := coded(what, ev); err != nil {
			return info, recognise(c, fmt.Errorf("%s: %v", where, err))
		}
	}
	for _, ev := range res.SendErrs {
		if err := coded("send", ev); err != nil {
			return info, fmt.Errorf("%s: %v", where, err)
		}
	}
	for _, o := range res.Ops {
		if err := coded(o.Op, o.Err); err != nil {
			return info, recognise(c, fmt.Errorf("%s: %v", where, err))
		}
	}
	if !res.CleanEnd && res.Err == nil {
		return info, fmt.Errorf("%s: neither success nor error", where)
	}
	// a non-200 response is never a success, whatever else it carries
	if c.Status != 200 && res.CleanEnd {
		return info, fmt.Errorf("%s: non-200 response but the call succeeded", where)
	}
	// status-derived code
	if c.Status != 200 && !hasProtocolError(c) {
		info.Label("non-200-without-protocol-error")
		if res.Err == nil {
			return info, fmt.Errorf("%s: non-200 response but the call succeeded", where)
		}
		if want, ok := agreed[c.Status]; ok && res.Err.Code != want {
			return info, fmt.Errorf("%s: HTTP %d must map to code %d, got %d", where, c.Status, want, res.Err.Code)
		}
		// metamorphic: the code depends on the status alone
		bare := c
		bare.Header, bare.Body, bare.Trailer, bare.ReadErr = nil, nil, nil, ""
		res2, berr2 := run(tt, bare)
		if berr2 != nil {
			return info, fmt.Errorf("%s (bare variant): %v", where, berr2)
		}
		if res2.Err == nil || res2.Err.Code != res.Err.Code {
			return info, fmt.Errorf("%s: code %d, but the same status with no headers/body gives %v: the code must be derived from the HTTP status alone", where, res.Err.Code, res2.Err)
		}
	}
	return info, nil
}

// recognise tags deviations that match a known-finding recogniser (none are
// open at the moment; see KNOWN_FINDINGS.txt).
func recognise(c Case, err error) error { return err }

func trunc(b []byte, n int) []byte {
	if len(b) > n {
		return b[:n]
	}
	return b
}

var hostileGRPCStatus = []string{"", "0", "00", "+0", "-0", "-1", " 1", "1 ", "17", "99", "4294967295", "4294967296", "abc", "1,2", "0x1", "1e1"}
var hostileMessages = []string{"", "%", "%%", "%G1", "%4", "%41", "ünï", "a%ZZb", "%e4%b8%96", strings.Repeat("%41", 100), "\x00", "tab\there", "a%41b%4", "%41%4", "x%41%", "%41%%", "bad %41rgument%4", "%c3%a9 lower", "%C3%A9 upper", "%41%4%"}

var messageTokens = []string{"%", "%4", "%41", "%zz", "%c3", "%A9", "a", " ", "é", "%%", "4", "G"}
var hostileJSON = []string{
	`{}`, `null`, `[]`, `""`, `0`, `{"code":""}`, `{"code":"code_0"}`, `{"code":"code_4294967296"}`, `{"code":"code_17"}`, `{"code":5}`, `{"code":"OK"}`, `{"code":"ok"}`,
	`{"message":"only message"}`, `{"code":"not_found"}`, `{"code":"not_found","message":5}`, `{"code":"not_found","details":{}}`, `{"code":"not_found","details":[{}]}`,
	`{"code":"not_found","details":[{"@type":"type.googleapis.com/nope.Nope"}]}`, `{"code":"Forbidden"}`, `{"code":"NOT_FOUND","message":"grpc-style name"}`, `{"code":"unavailable "}`, `{"code":"404"}`, `{"code":"internal","message":"m","extra":1}`, `{"code":null}`, `{"code":"canceled","message":null}`,
	`{"code":"unknown"`, `{"code":"not_found"}trailing`, strings.Repeat("[", 2000), `{"code":"` + strings.Repeat("x", 5000) + `"}`,
}
var hostileEndStream = []string{
	`{}`, `null`, `[]`, `{"error":{}}`, `{"error":null}`, `{"error":{"code":"code_0"}}`, `{"error":{"code":""}}`, `{"error":{"message":"m"}}`, `{"error":"x"}`, `{"error":[]}`,
	`{"metadata":{"x-lower":["v"]}}`, `{"metadata":{"X-Upper":["v"],"x-upper":["w"]}}`, `{"metadata":{"k":"notalist"}}`, `{"metadata":[]}`, `{"metadata":null}`, `{"metadata":{"k":[1]}}`,
	`{"error":{"code":"not_found"},"metadata":{"grpc-status":["0"]}}`, `{"error":{"code":"aborted","details":[{"@type":"x"}]}}`, `{`, ``, `{"error":{"code":"unavailable","message":"m"}}garbage`,
}
var hostileTrailerBlocks = []string{
	"grpc-status: 0\r\n", "GRPC-STATUS: 0\r\n", "grpc-status:0", "grpc-status: 0\r\ngrpc-status: 5\r\n", "grpc-status 0\r\n", "", "\r\n", ": 0\r\n", "grpc-status: 7\r\ngrpc-message: %zz\r\n",
	"grpc-status: 00\r\n", "grpc-message: only\r\n", "grpc-status: 3\r\nX-Custom: a\r\nx-custom: b\r\n", "grpc-status: 9\r\ngrpc-status-details-bin: !!!\r\n", "\x00\x01\x02", "grpc-status: 0\n\nbody",
}

func gen(t *rapid.T) Case {
	c := Case{ProtoMajor: rapid.SampledFrom([]int{2, 2, 1}).Draw(t, "major")}
	origin := rapid.SampledFrom([]string{"valid", "mutated", "mutated", "frames", "json", "endstream", "grpcmeta", "webtrailer", "status", "random"}).Draw(t, "origin")
	c.Origin = origin
	b := bodies.Gen(t, "response", []int{0, 1, 20, 300})
	c.Protocol, c.Codec, c.Kind = b.Protocol, b.Codec, b.Kind
	resp, err := b.Response()
	if err != nil {
		resp = &refwire.Response{Status: 200, Header: http.Header{"Content-Type": {b.ContentType()}}}
	}
	c.Status, c.Header, c.Body, c.Trailer = resp.Status, kvs(resp.Header), resp.Body, kvs(resp.Trailer)
	switch origin {
	case "valid":
	case "mutated":
		nm := rapid.IntRange(1, 3).Draw(t, "nmut")
		for i := 0; i < nm; i++ {
			switch rapid.SampledFrom([]string{"flip", "truncate", "append", "flags", "length", "status", "ct", "enc", "dropTrailer", "dupframe"}).Draw(t, "mut") {
			case "flip":
				if len(c.Body) > 0 {
					c.Body = append([]byte(nil), c.Body...)
					c.Body[rapid.IntRange(0, len(c.Body)-1).Draw(t, "pos")] ^= byte(rapid.IntRange(1, 255).Draw(t, "xor"))
				}
			case "truncate":
				if len(c.Body) > 0 {
					c.Body = c.Body[:rapid.IntRange(0, len(c.Body)-1).Draw(t, "cut")]
				}
			case "append":
				c.Body = append(append([]byte(nil), c.Body...), rapid.SliceOfN(rapid.Byte(), 1, 12).Draw(t, "extra")...)
			case "flags":
				if len(c.Body) >= 5 {
					c.Body = append([]byte(nil), c.Body...)
					c.Body[0] = byte(rapid.SampledFrom([]int{0, 1, 2, 3, 4, 0x80, 0x81, 0x82, 0xff}).Draw(t, "flag"))
				}
			case "length":
				if len(c.Body) >= 5 {
					c.Body = append([]byte(nil), c.Body...)
					copy(c.Body[1:5], rapid.SampledFrom([][]byte{{0, 0, 0, 0}, {0, 0x10, 0, 0}, {0, 0, 0, 1}, {0, 0, 0xff, 0xff}, {0, 1, 0, 0}}).Draw(t, "len"))
				}
			case "status":
				c.Status = rapid.SampledFrom([]int{200, 201, 204, 301, 400, 401, 403, 404, 408, 412, 413, 429, 431, 500, 502, 503, 504, 599}).Draw(t, "status")
			case "ct":
				c.Header = setKV(c.Header, "Content-Type", rapid.SampledFrom([]string{"", "text/html", "application/json", "application/grpc", "application/proto", "application/connect+json", "application/grpc-web+proto"}).Draw(t, "ct"))
			case "enc":
				k := map[string]string{"connect": "Connect-Content-Encoding", "grpc": "Grpc-Encoding", "grpcweb": "Grpc-Encoding"}[c.Protocol]
				if c.Protocol == "connect" && c.Kind == prog.Unary {
					k = "Content-Encoding"
				}
				c.Header = setKV(c.Header, k, rapid.SampledFrom([]string{"br", "gzip", "deflate", "identity", "", "GZIP"}).Draw(t, "enc"))
			case "dropTrailer":
				c.Trailer = nil
			case "dupframe":
				c.Body = append(append([]byte(nil), c.Body...), c.Body...)
			}
		}
	case "frames":
		c.Body = nil
		n := rapid.IntRange(1, 4).Draw(t, "nframes")
		for i := 0; i < n; i++ {
			flag := byte(rapid.SampledFrom([]int{0, 0, 1, 2, 3, 0x80, 0x81, 0x40, 0xff}).Draw(t, "flag"))
			payload := rapid.SampledFrom([][]byte{nil, []byte("{}"), []byte("grpc-status: 0\r\n"), refwire.EncodePing(c.Codec, 3, "x"), []byte("\xff\xff\xff"), comp.Compress("gzip", []byte("{}"))}).Draw(t, "payload")
			c.Body = refwire.AppendFrame(c.Body, flag, payload)
		}
	case "json":
		if c.Protocol == "connect" && c.Kind == prog.Unary {
			c.Status = rapid.SampledFrom([]int{400, 401, 403, 404, 409, 429, 500, 503, 200}).Draw(t, "status")
			c.Header = setKV(c.Header, "Content-Type", rapid.SampledFrom([]string{"application/json", "application/json", "text/plain", "application/proto"}).Draw(t, "ct"))
			c.Body = []byte(rapid.SampledFrom(hostileJSON).Draw(t, "json"))
			if rapid.IntRange(0, 3).Draw(t, "foreignCode") == 0 {
				// JSON error bodies of other systems: a "code" that is no Connect code
				c.Body = []byte(rapid.SampledFrom([]string{`{"code":"Forbidden"}`, `{"code":"NOT_FOUND","message":"grpc-style name"}`, `{"code":"unavailable "}`, `{"code":"404"}`, `{"code":"E_TOO_BUSY","message":"try later"}`, `{"code":"PermissionDenied"}`}).Draw(t, "foreignJSON"))
				c.Header = setKV(c.Header, "Content-Type", "application/json")
			}
		}
	case "endstream":
		if c.Protocol == "connect" && c.Kind != prog.Unary {
			frames, _ := refwire.ParseFrames(c.Body)
			c.Body = nil
			for _, f := range frames {
				if f.Flags&refwire.FlagConnectEnd == 0 {
					c.Body = refwire.AppendFrame(c.Body, f.Flags, f.Data)
				}
			}
			c.Body = refwire.AppendFrame(c.Body, byte(rapid.SampledFrom([]int{2, 2, 2, 3}).Draw(t, "endflag")), []byte(rapid.SampledFrom(hostileEndStream).Draw(t, "end")))
		}
	case "grpcmeta":
		if c.Protocol == "grpc" {
			where := rapid.SampledFrom([]string{"trailer", "header", "both"}).Draw(t, "where")
			st := rapid.SampledFrom(hostileGRPCStatus).Draw(t, "gstatus")
			msg := rapid.SampledFrom(hostileMessages).Draw(t, "gmsg")
			if rapid.Bool().Draw(t, "tokenmsg") {
				// token soup: escapes, truncated escapes and plain bytes in any order
				msg = strings.Join(rapid.SliceOfN(rapid.SampledFrom(messageTokens), 0, 8).Draw(t, "tokens"), "")
			}
			det := rapid.SampledFrom([]string{"", "!!!", "AAAA", refwire.EncodeBin(refwire.EncodeStatusProto(&refwire.Status{Code: 0, Message: "zero"}), false), refwire.EncodeBin(refwire.EncodeStatusProto(&refwire.Status{Code: 0xFFFFFFFF, Message: "neg"}), true), refwire.EncodeBin([]byte{0x1a, 0x05, 0x0a, 0x01}, false)}).Draw(t, "gdet")
			apply := func(l []prog.KV) []prog.KV {
				l = setKV(l, "Grpc-Status", st)
				l = setKV(l, "Grpc-Message", msg)
				if det != "" {
					l = setKV(l, "Grpc-Status-Details-Bin", det)
				}
				return l
			}
			if where != "header" {
				c.Trailer = apply(c.Trailer)
			}
			if where != "trailer" {
				c.Header = apply(c.Header)
			}
			if rapid.IntRange(0, 2).Draw(t, "non200") == 0 {
				// a gRPC status next to an HTTP error status
				c.Status = rapid.SampledFrom([]int{204, 400, 401, 403, 404, 429, 500, 502, 503, 504}).Draw(t, "gstatusHTTP")
			}
		}
	case "webtrailer":
		if c.Protocol == "grpcweb" {
			frames, _ := refwire.ParseFrames(c.Body)
			c.Body = nil
			for _, f := range frames {
				if f.Flags&refwire.FlagGRPCWebTrailer == 0 {
					c.Body = refwire.AppendFrame(c.Body, f.Flags, f.Data)
				}
			}
			c.Body = refwire.AppendFrame(c.Body, 0x80, []byte(rapid.SampledFrom(hostileTrailerBlocks).Draw(t, "block")))
		}
	case "status":
		c.Status = rapid.IntRange(200, 599).Draw(t, "status") // 1xx is never a final status
		if rapid.Bool().Draw(t, "keepbody") {
			c.Body = []byte(rapid.SampledFrom(append(hostileJSON, "<html>nope</html>", "")).Draw(t, "body"))
		}
		if rapid.Bool().Draw(t, "ctjson") {
			c.Header = setKV(c.Header, "Content-Type", "application/json")
		}
	default:
		c.Status = rapid.SampledFrom([]int{200, 200, 404, 500}).Draw(t, "status")
		c.Body = rapid.SliceOfN(rapid.Byte(), 0, 64).Draw(t, "body")
	}
	if !(c.Protocol == "connect" && c.Kind == prog.Unary) {
		// (unary Connect bodies are not enveloped: there is no length prefix to
		// clamp, and rewriting bytes 1..4 would only destroy the JSON documents)
		c.Body = clampLengths(c.Body)
	}
	if rapid.IntRange(0, 5).Draw(t, "readErr") == 0 {
		c.ReadErr = rapid.SampledFrom([]string{"unexpected", "reset"}).Draw(t, "readErrKind")
	}
	return c
}

// clampLengths rewrites envelope prefixes that declare more than 1 MiB beyond
// what is present: without a configured read limit the library allocates the
// declared size up front (up to 4 GiB), which is outside this property and
// would only make the search slow.
func clampLengths(body []byte) []byte {
	out := append([]byte(nil), body...)
	off := 0
	for off+5 <= len(out) {
		n := int(binary.BigEndian.Uint32(out[off+1 : off+5]))
		if n > len(out)-off-5+(1<<20) {
			binary.BigEndian.PutUint32(out[off+1:off+5], uint32(len(out)-off-5+(1<<20)))
			break
		}
		off += 5 + n
	}
	return out
}

var spec = pbt.Spec[Case]{
	Prop: "C06", Name: "hostile-responses", Gen: gen, Check: check,
	Rule: "raw responses handed to every client API (3 protocols × 2 codecs × 4 kinds, HTTP/1.1 and HTTP/2 version numbers) inside a synctest bubble: valid reference responses; 1..3 mutations of them (byte flips, truncation, appended bytes, flag/length rewrites, status, Content-Type, encoding headers, dropped trailers, duplicated frames); synthetic frame sequences with every flag byte; hostile Connect error JSON and end-of-stream JSON; hostile grpc-status / grpc-message / details-bin in headers and/or trailers; hostile gRPC-Web trailer blocks; arbitrary statuses 200..599 with/without bodies; random bytes. Oracle: returns (no deadlock), no panic, success XOR error, every error is a *connect.Error with non-zero code, non-200 without a valid protocol-level error ⇒ code is a function of the status alone (metamorphic: same status without headers/body) and equals the entries on which all published tables agree; non-trivial = not a pristine valid response and (body non-empty or status ≠ 200)",
}

func TestHostile(t *testing.T) { pbt.Run(t, spec) }

// ---- case-insensitive metadata lookups ----

type CasingCase struct {
	Protocol string   `json:"protocol"`
	Kind     string   `json:"kind"`
	Keys     []string `json:"keys"` // wire spelling of metadata keys
	Fail     bool     `json:"fail"`
	Lookup   string   `json:"lookup"` // how the application spells the key: canonical | lower | upper
	// Dup: the first key appears a second time on the wire in another casing,
	// with its own value; both values belong to the same field
	Dup bool `json:"dup,omitempty"`
}

// otherCasing returns a spelling of k that differs from k only in case.
func otherCasing(k string) string {
	if u := strings.ToUpper(k); u != k {
		return u
	}
	return strings.ToLower(k)
}

func respell(k, how string) string {
	switch how {
	case "lower":
		return strings.ToLower(k)
	case "upper":
		return strings.ToUpper(k)
	}
	return http.CanonicalHeaderKey(k)
}

func checkCasing(tt *testing.T, c CasingCase) (pbt.Info, error) {
	var info pbt.Info
	info.Label("proto:" + c.Protocol)
	var body []byte
	msg := refwire.EncodePing("proto", 1, "m")
	body = refwire.AppendFrame(body, 0, msg)
	hdr := http.Header{"Content-Type": {refwire.ContentType(c.Protocol, c.Kind, "proto")}}
	if c.Protocol == "grpcweb" {
		var blk strings.Builder
		st := "grpc-status: 0\r\n"
		if c.Fail {
			st = "GRPC-Status: 5\r\nGrpc-Message: nope\r\n"
		}
		blk.WriteString(st)
		for i, k := range c.Keys {
			fmt.Fprintf(&blk, "%s: v%d\r\n", k, i)
		}
		if c.Dup {
			fmt.Fprintf(&blk, "%s: dup\r\n", otherCasing(c.Keys[0]))
		}
		body = refwire.AppendFrame(body, 0x80, []byte(blk.String()))
	} else {
		var md []string
		for i, k := range c.Keys {
			md = append(md, fmt.Sprintf("%q:[\"v%d\"]", k, i))
		}
		if c.Dup {
			md = append(md, fmt.Sprintf("%q:[\"dup\"]", otherCasing(c.Keys[0])))
		}
		end := `{"metadata":{` + strings.Join(md, ",") + `}}`
		if c.Fail {
			end = `{"error":{"code":"not_found","message":"nope"},"metadata":{` + strings.Join(md, ",") + `}}`
		}
		body = refwire.AppendFrame(body, 2, []byte(end))
	}
	sc := memnet.NewScript(200, hdr, bytes.NewReader(body), nil)
	cfg := prog.Config{Protocol: c.Protocol, Codec: "proto", Kind: c.Kind}
	cp := &prog.ClientProg{Msgs: []prog.Msg{{N: 1}}}
	if c.Kind == prog.Bidi {
		cp.Ops = []prog.COp{{Op: "send", Msg: &prog.Msg{N: 1}}, {Op: "closereq"}, {Op: "recvall"}, {Op: "closeresp"}}
	}
	res := prog.RunClient(context.Background(), sc, cfg, cp, nil)
	sc.WaitRequest()
	where := fmt.Sprintf("%s %s response whose trailing metadata keys are spelled %q on the wire (fail=%v)", c.Protocol, c.Kind, c.Keys, c.Fail)
	var md http.Header
	if c.Fail {
		if res.Err == nil || res.Err.Code != 5 {
			return info, fmt.Errorf("%s: expected not_found, got %v", where, res.Err)
		}
		md = res.Err.Meta
	} else {
		if res.Err != nil {
			return info, fmt.Errorf("%s: call failed: %v", where, res.Err)
		}
		md = res.Trailer
	}
	for i, k := range c.Keys {
		if k != http.CanonicalHeaderKey(k) {
			info.NonTrivial = true
		}
		want := fmt.Sprintf("v%d", i)
		got := md.Values(respell(k, c.Lookup))
		found := false
		for _, g := range got {
			if g == want {
				found = true
			}
		}
		if i == 0 && c.Dup {
			info.NonTrivial = true
			info.Label("same-field-in-two-casings")
			hasDup := false
			for _, g := range got {
				if g == "dup" {
					hasDup = true
				}
			}
			if !hasDup {
				return info, fmt.Errorf("%s: the field also arrived spelled %q with value \"dup\", but Values(%q) = %q lacks it — two spellings of one field name are one field", where, otherCasing(k), respell(k, c.Lookup), got)
			}
		}
		if !found {
			return info, fmt.Errorf("%s: %s.Values(%q) = %q lacks %q (all metadata: %v) — HTTP field names are case-insensitive", where, map[bool]string{true: "err.Meta()", false: "ResponseTrailer()"}[c.Fail], respell(k, c.Lookup), got, want, md)
		}
	}
	return info, nil
}

var specCasing = pbt.Spec[CasingCase]{
	Prop: "C06", Name: "metadata-casing",
	Gen: func(t *rapid.T) CasingCase {
		c := CasingCase{Protocol: rapid.SampledFrom([]string{"connect", "grpcweb"}).Draw(t, "protocol"), Kind: rapid.SampledFrom([]string{prog.Server, prog.Bidi}).Draw(t, "kind"), Fail: rapid.Bool().Draw(t, "fail")}
		c.Lookup = rapid.SampledFrom([]string{"canonical", "lower", "upper"}).Draw(t, "lookup")
		n := rapid.IntRange(1, 3).Draw(t, "nkeys")
		for i := 0; i < n; i++ {
			base := fmt.Sprintf("x-meta-%c%d", 'a'+i, i)
			b := []byte(base)
			for j := range b {
				if rapid.Bool().Draw(t, "up") {
					b[j] = byte(strings.ToUpper(string(b[j]))[0])
				}
			}
			c.Keys = append(c.Keys, string(b))
		}
		c.Dup = rapid.IntRange(0, 2).Draw(t, "dup") == 0
		return c
	},
	Check: checkCasing,
	Rule:  "valid Connect streaming / gRPC-Web responses whose trailing-metadata keys (end-of-stream JSON resp. trailer block) are spelled with generated casing, successful or failing; the application looks each key up in canonical, lower or upper case through ResponseTrailer() resp. err.Meta(); oracle: Values() returns the value (case-insensitive HTTP semantics); non-trivial = at least one key not in canonical form on the wire",
}

func TestMetadataCasing(t *testing.T) { pbt.Run(t, specCasing) }

func TestReplay(t *testing.T) { pbt.ReplayMain(t, pbt.Replayer(spec), pbt.Replayer(specCasing)) }
