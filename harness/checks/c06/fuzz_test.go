package c06

import (
	"testing"

	"github.com/bufbuild/connect-go/verif/fz"
	"github.com/bufbuild/connect-go/verif/pbt"
	"github.com/bufbuild/connect-go/verif/prog"
	"pgregory.net/rapid"
)

// Native coverage-guided fuzzing of the client against raw responses. The
// input is decoded into the same Case the rapid generator produces and judged
// by the same oracle; seeds are examples of that generator.

var (
	fzProtocols = []string{"connect", "grpc", "grpcweb"}
	fzCodecs    = []string{"proto", "json"}
	fzKinds     = []string{prog.Unary, prog.Client, prog.Server, prog.Bidi}
)

func decodeFuzz(sel uint8, status uint16, hdr string, body []byte, trl string) (Case, bool) {
	c := Case{Origin: "fuzz"}
	c.Protocol = fzProtocols[int(sel)%3]
	c.Codec = fzCodecs[int(sel/3)%2]
	c.Kind = fzKinds[int(sel/6)%4]
	c.ProtoMajor = 2 - int(sel/24)%2
	c.Status = 200 + int(status)%400 // 1xx is never a final status
	if len(body) > 1<<16 || len(hdr) > 1<<12 || len(trl) > 1<<12 {
		return c, false
	}
	c.Header, c.Trailer = fz.ParseFields(hdr), fz.ParseFields(trl)
	c.Body = body
	if !(c.Protocol == "connect" && c.Kind == prog.Unary) {
		c.Body = clampLengths(body)
	}
	return c, true
}

func encodeFuzz(c Case) (uint8, uint16, string, []byte, string) {
	idx := fz.Index
	sel := idx(fzProtocols, c.Protocol) + 3*idx(fzCodecs, c.Codec) + 6*idx(fzKinds, c.Kind) + 24*(2-c.ProtoMajor)
	return uint8(sel), uint16(c.Status - 200), fz.FieldsBlob(c.Header), c.Body, fz.FieldsBlob(c.Trailer)
}

func FuzzHostile(f *testing.F) {
	g := rapid.Custom(gen)
	for i := 0; i < 1500; i++ {
		c := g.Example(i)
		if c.Status < 200 || len(c.Body) > 4096 {
			continue
		}
		a, b, cc, d, e := encodeFuzz(c)
		f.Add(a, b, cc, d, e)
	}
	f.Fuzz(func(t *testing.T, sel uint8, status uint16, hdr string, body []byte, trl string) {
		c, ok := decodeFuzz(sel, status, hdr, body, trl)
		if !ok {
			t.Skip()
		}
		pbt.FuzzEval(t, spec, c)
	})
}

// FuzzHostileGen lets coverage feedback steer the structured generator itself.
func FuzzHostileGen(f *testing.F) { pbt.FuzzGen(f, spec) }
