package c09

import (
	"bytes"
	"context"
	"encoding/binary"
	"fmt"
	"runtime"
	"strings"
	"testing"

	"github.com/bufbuild/connect-go/verif/comp"
	"github.com/bufbuild/connect-go/verif/memnet"
	"github.com/bufbuild/connect-go/verif/pbt"
	"github.com/bufbuild/connect-go/verif/prog"
	"github.com/bufbuild/connect-go/verif/refwire"
	"pgregory.net/rapid"
)

type Case struct {
	Dir      string `json:"dir"` // handler | client
	Protocol string `json:"protocol"`
	Codec    string `json:"codec"`
	Kind     string `json:"kind"`
	N        int    `json:"n"`
	Good     int    `json:"good"`     // acceptable messages before the probe
	Probe    string `json:"probe"`    // n-1 | n | n+1 | 2n | big | bomb | fatwire | okcomp | lie-short | lie-long | lie-max
	Encoding string `json:"encoding"` // algorithm for compressed probes / good messages
	GoodComp bool   `json:"good_comp"`
	// ContentLength: the request announces its body size (as clients with a
	// fixed-size body do); handler side only.
	ContentLength bool `json:"content_length,omitempty"`
	// LieCL: the peer announces this Content-Length, far more than it sends
	LieCL int64 `json:"lie_cl,omitempty"`
}

// textFor returns a text such that the encoded ping message has exactly size bytes (if possible).
func textFor(codec string, size int, compressible bool) (string, bool) {
	ch := "q"
	mk := func(l int) string {
		if l <= 0 {
			return ""
		}
		if compressible {
			return strings.Repeat(ch, l)
		}
		m := prog.Msg{TLen: l, TSeed: 7}
		return m.Text()
	}
	for l := size; l >= 0 && l >= size-12; l-- {
		if len(refwire.EncodePing(codec, 0, mk(l))) == size {
			return mk(l), true
		}
	}
	return "", false
}

type built struct {
	payload  []byte // what goes into the frame / body
	flags    byte
	wire     int
	decomp   int
	accept   bool
	lie      bool
	declared uint32
	text     string
	present  int
}

func buildMsg(c Case, class string) (built, bool) {
	var b built
	N := c.N
	plain := func(size int) bool {
		t, ok := textFor(c.Codec, size, false)
		if !ok {
			return false
		}
		b.text = t
		b.payload = refwire.EncodePing(c.Codec, 0, t)
		b.wire, b.decomp = len(b.payload), len(b.payload)
		return true
	}
	switch class {
	case "n-1":
		if N < 2 || !plain(N-1) {
			return b, false
		}
	case "n":
		if !plain(N) {
			return b, false
		}
	case "n+1":
		if !plain(N + 1) {
			return b, false
		}
	case "2n":
		if !plain(2 * N) {
			return b, false
		}
	case "big":
		if !plain(8*N + 100000) {
			return b, false
		}
	case "bomb", "bomb1", "okcomp", "fatwire":
		if c.Encoding == "" {
			return b, false
		}
		size := N + 1 // bomb1: decompresses to exactly one byte more than the limit
		if class == "bomb" {
			size = 4*N + 50000
		}
		if class == "okcomp" || class == "fatwire" {
			size = N
		}
		t, ok := textFor(c.Codec, size, class != "fatwire")
		if !ok {
			return b, false
		}
		b.text = t
		raw := refwire.EncodePing(c.Codec, 0, t)
		b.payload = comp.Compress(c.Encoding, raw)
		b.flags = refwire.FlagCompressed
		b.wire, b.decomp = len(b.payload), len(raw)
		switch class {
		case "bomb", "bomb1":
			if b.wire > N {
				return b, false
			}
		case "okcomp":
			if b.wire > N {
				return b, false
			}
		case "fatwire":
			if b.wire <= N {
				return b, false
			}
		}
	case "small":
		if !plain(100) {
			return b, false
		}
	case "flagged-big":
		// a frame carrying a protocol-specific flag (end-of-stream / trailers) is
		// still subject to the limit
		if N > 1<<20 {
			return b, false
		}
		b.payload = bytes.Repeat([]byte("x"), 4*N+1000)
		b.flags = byte([]int{0x02, 0x80, 0x82, 0x03}[N%4])
		b.wire, b.decomp = len(b.payload), len(b.payload)
		b.text = "\x00never-delivered"
	case "flagged-lie":
		if N > 1<<20 || !plain(10) {
			return b, false
		}
		b.flags = byte([]int{0x02, 0x80}[N%2])
		b.lie, b.declared, b.present = true, uint32(64*N+32<<20), len(b.payload)
	case "lie-short":
		if N <= 1<<20 && (!plain(N) || N < 4) {
			return b, false
		}
		if N > 1<<20 {
			// huge limit: declare 1000 bytes, deliver 500
			if !plain(1000) {
				return b, false
			}
			b.lie, b.declared, b.present = true, 1000, 500
			break
		}
		b.lie, b.declared, b.present = true, uint32(N), N/2
	case "lie-long":
		if !plain(10) {
			return b, false
		}
		b.lie, b.declared, b.present = true, uint32(4*N+1000), len(b.payload)
	case "lie-max":
		if !plain(10) {
			return b, false
		}
		b.lie, b.declared, b.present = true, 0xFFFFFFFF, len(b.payload)
	default:
		return b, false
	}
	b.accept = !b.lie && b.wire <= N && b.decomp <= N && class != "flagged-big"
	return b, true
}

func goodMsg(c Case, i int) built {
	// acceptable messages of sizes N, N-1, 1, ... (never more than N)
	size := c.N - (i % 3)
	if size < 1 {
		size = 1
	}
	if size > 4096 {
		size = 4096 - (i % 3)
	}
	var b built
	t, ok := textFor(c.Codec, size, true)
	if !ok {
		t = ""
	}
	b.text = t
	raw := refwire.EncodePing(c.Codec, 0, t)
	b.payload, b.wire, b.decomp = raw, len(raw), len(raw)
	if c.GoodComp && c.Encoding != "" {
		z := comp.Compress(c.Encoding, raw)
		if len(z) <= c.N {
			b.payload, b.flags, b.wire = z, refwire.FlagCompressed, len(z)
		}
	}
	b.accept = b.wire <= c.N && b.decomp <= c.N
	return b
}

func frame(b built) []byte {
	if b.lie {
		var p [5]byte
		p[0] = b.flags
		binary.BigEndian.PutUint32(p[1:], b.declared)
		return append(p[:], b.payload[:b.present]...)
	}
	return refwire.AppendFrame(nil, b.flags, b.payload)
}

func encHeader(c Case) (string, string) {
	switch c.Protocol {
	case "connect":
		if c.Kind == prog.Unary {
			return "Content-Encoding", c.Encoding
		}
		return "Connect-Content-Encoding", c.Encoding
	}
	return "Grpc-Encoding", c.Encoding
}

type plan struct {
	msgs    []built
	body    []byte
	unaryCT bool
}

func makePlan(c Case) (plan, bool) {
	var p plan
	probe, ok := buildMsg(c, c.Probe)
	if !ok {
		return p, false
	}
	unenveloped := c.Protocol == "connect" && c.Kind == prog.Unary
	if unenveloped {
		if probe.lie {
			return p, false
		}
		p.msgs = []built{probe}
		p.body = probe.payload
		p.unaryCT = true
		return p, true
	}
	for i := 0; i < c.Good; i++ {
		g := goodMsg(c, i)
		if !g.accept {
			return p, false
		}
		p.msgs = append(p.msgs, g)
	}
	p.msgs = append(p.msgs, probe)
	for _, m := range p.msgs {
		p.body = append(p.body, frame(m)...)
	}
	return p, true
}

func multi(dir, kind string) bool {
	if dir == "handler" {
		return kind == prog.Client || kind == prog.Bidi
	}
	return kind == prog.Server || kind == prog.Bidi
}

type outcome struct {
	delivered []prog.Obs
	failed    bool
	code      uint32
	panicked  any
	allocated uint64
}

func runHandler(c Case, p plan, measure bool) outcome {
	var o outcome
	log := &prog.HLog{}
	hp := &prog.HandlerProg{Drain: true, Resp: &prog.Msg{N: 1}, PropagateRecvErr: true}
	cfg := prog.Config{HComp: []string{"deflate", "zlib", "toy", "rle"}, HReadMax: c.N}
	h := prog.NewHandler(c.Kind, hp, log, cfg.HandlerOptions()...)
	req := refwire.BuildRequest(&refwire.ReqSpec{Protocol: c.Protocol, Kind: c.Kind, Codec: c.Codec})
	if c.Encoding != "" && !(p.unaryCT && p.msgs[0].flags == 0) {
		k, v := encHeader(c)
		req.Header.Set(k, v)
	}
	var before, after runtime.MemStats
	if measure {
		runtime.GC()
		runtime.ReadMemStats(&before)
	}
	rec := memnet.Serve(h, "POST", prog.Procedure(c.Kind), req.Header, bytes.NewReader(p.body), memnet.ServeOpts{HaveContentLength: c.ContentLength || c.LieCL > 0, ContentLength: max(int64(len(p.body)), c.LieCL)})
	if measure {
		runtime.ReadMemStats(&after)
		o.allocated = after.TotalAlloc - before.TotalAlloc
	}
	if rec.Panicked {
		o.panicked = rec.PanicValue
		return o
	}
	for _, call := range log.Snapshot() {
		o.delivered = append(o.delivered, call.Received...)
	}
	dec, err := refwire.DecodeResponse(c.Protocol, c.Kind, refwire.ContentType(c.Protocol, c.Kind, c.Codec), &refwire.Response{Status: rec.Status, Header: rec.Header, Body: rec.Body, Trailer: rec.Trailer})
	if err != nil {
		o.failed, o.code = true, 0
		return o
	}
	o.failed, o.code = dec.Status.Code != 0, dec.Status.Code
	return o
}

func runClient(c Case, p plan, measure bool) outcome {
	var o outcome
	hdr := map[string][]string{"Content-Type": {refwire.ContentType(c.Protocol, c.Kind, c.Codec)}}
	if c.Encoding != "" && !(p.unaryCT && p.msgs[0].flags == 0) {
		k, v := encHeader(c)
		hdr[k] = []string{v}
	}
	body := append([]byte(nil), p.body...)
	trailer := map[string][]string{}
	switch {
	case p.msgs[len(p.msgs)-1].lie:
		// the stream simply ends inside the lying frame
	case c.Protocol == "grpc":
		trailer["Grpc-Status"] = []string{"0"}
	case c.Protocol == "grpcweb":
		body = refwire.AppendFrame(body, refwire.FlagGRPCWebTrailer, []byte("grpc-status: 0\r\n"))
	case c.Protocol == "connect" && c.Kind != prog.Unary:
		body = refwire.AppendFrame(body, refwire.FlagConnectEnd, []byte("{}"))
	}
	sc := memnet.NewScript(200, hdr, bytes.NewReader(body), trailer)
	sc.RespContentLength = c.LieCL
	cfg := prog.Config{Protocol: c.Protocol, Codec: c.Codec, Kind: c.Kind, CAccept: []string{"deflate", "zlib", "toy", "rle"}, CReadMax: c.N}
	cp := &prog.ClientProg{Msgs: []prog.Msg{{N: 1}}}
	if c.Kind == prog.Bidi {
		cp.Ops = []prog.COp{{Op: "send", Msg: &prog.Msg{N: 1}}, {Op: "closereq"}, {Op: "recvall"}, {Op: "closeresp"}}
	}
	var before, after runtime.MemStats
	if measure {
		runtime.GC()
		runtime.ReadMemStats(&before)
	}
	res := prog.RunClient(context.Background(), sc, cfg, cp, nil)
	sc.WaitRequest()
	if measure {
		runtime.ReadMemStats(&after)
		o.allocated = after.TotalAlloc - before.TotalAlloc
	}
	o.delivered = res.Received
	if res.Err != nil {
		o.failed, o.code = true, res.Err.Code
		if !res.Err.IsConnect {
			o.code = 0
		}
	}
	return o
}

func check(tt *testing.T, c Case) (pbt.Info, error) {
	var info pbt.Info
	info.Label("dir:" + c.Dir)
	info.Label("proto:" + c.Protocol)
	info.Label("probe:" + c.Probe)
	p, ok := makePlan(c)
	if !ok {
		info.Label("unbuildable")
		return info, nil
	}
	info.NonTrivial = true
	var o outcome
	if c.Dir == "handler" {
		o = runHandler(c, p, false)
	} else {
		o = runClient(c, p, false)
	}
	probe := p.msgs[len(p.msgs)-1]
	where := fmt.Sprintf("%s-side limit N=%d, %s/%s/%s, %d good messages then probe %s (wire %d, decompressed %d, lie=%v, encoding %q)", c.Dir, c.N, c.Protocol, c.Codec, c.Kind, len(p.msgs)-1, c.Probe, probe.wire, probe.decomp, probe.lie, c.Encoding)
	if o.panicked != nil {
		return info, fmt.Errorf("%s: panic: %v", where, o.panicked)
	}
	// which messages may be delivered
	wantMax := len(p.msgs) - 1
	if probe.accept {
		wantMax = len(p.msgs)
	}
	for i, d := range o.delivered {
		if i >= len(p.msgs) {
			return info, fmt.Errorf("%s: %d messages delivered, only %d sent", where, len(o.delivered), len(p.msgs))
		}
		if d.T != p.msgs[i].text {
			return info, fmt.Errorf("%s: delivered message %d differs from what was sent (len %d vs %d)", where, i, len(d.T), len(p.msgs[i].text))
		}
		if !p.msgs[i].accept {
			return info, fmt.Errorf("%s: message %d (wire %d B, decompressed %d B) exceeds the limit but was delivered to the application", where, i, p.msgs[i].wire, p.msgs[i].decomp)
		}
	}
	if probe.accept {
		if o.failed {
			return info, fmt.Errorf("%s: every message is within the limit but the call failed (code %d)", where, o.code)
		}
		if len(o.delivered) != wantMax {
			return info, fmt.Errorf("%s: %d of %d acceptable messages delivered", where, len(o.delivered), wantMax)
		}
		return info, nil
	}
	if !o.failed {
		return info, fmt.Errorf("%s: the probe must be refused but the call succeeded (delivered %d)", where, len(o.delivered))
	}
	if len(o.delivered) != wantMax && multi(c.Dir, c.Kind) {
		return info, fmt.Errorf("%s: %d acceptable messages precede the probe, %d were delivered", where, wantMax, len(o.delivered))
	}
	if c.Probe == "flagged-big" || c.Probe == "flagged-lie" {
		if o.code == 0 {
			return info, fmt.Errorf("%s: refused without a valid code", where)
		}
	} else if !probe.lie || c.Probe != "lie-short" {
		if o.code != 3 && o.code != 8 {
			return info, fmt.Errorf("%s: refused with code %d, want invalid_argument or resource_exhausted", where, o.code)
		}
	} else if o.code == 0 {
		return info, fmt.Errorf("%s: truncated message: error without a valid code", where)
	}
	return info, nil
}

func gen(t *rapid.T) Case {
	c := Case{
		Dir:      rapid.SampledFrom([]string{"handler", "client"}).Draw(t, "dir"),
		Protocol: rapid.SampledFrom(prog.Protocols).Draw(t, "protocol"),
		Codec:    rapid.SampledFrom(prog.Codecs).Draw(t, "codec"),
		Kind:     rapid.SampledFrom(prog.Kinds).Draw(t, "kind"),
	}
	c.N = rapid.OneOf(rapid.SampledFrom([]int{16, 20, 64, 511, 512, 513, 1024, 4096, 65536, 100000, 1 << 20}), rapid.IntRange(14, 3000), rapid.SampledFrom([]int{1 << 31, 1<<32 - 1, 1 << 32, 1<<32 + 16, 1 << 40, 1<<62 + 5})).Draw(t, "n")
	if c.Dir == "client" && c.Protocol == "grpcweb" && c.N < 20 {
		// the 16-byte trailer frame of the scripted response is itself subject
		// to the limit (not a message: grey zone, kept out of the domain)
		c.N = 20
	}
	c.Probe = rapid.SampledFrom([]string{"n-1", "n", "n+1", "n+1", "2n", "big", "bomb", "bomb1", "fatwire", "okcomp", "lie-short", "lie-long", "lie-max", "small", "flagged-big", "flagged-lie"}).Draw(t, "probe")
	if c.N > 1<<20 {
		// limits beyond 32 bits: ordinary messages must simply be accepted
		c.Probe = rapid.SampledFrom([]string{"small", "small", "lie-short"}).Draw(t, "hugeNprobe")
	}
	switch c.Probe {
	case "bomb", "bomb1", "okcomp":
		// ("rle": a user-registered algorithm with an unbounded ratio — the
		// bomb is a dozen bytes on the wire)
		c.Encoding = rapid.SampledFrom([]string{"gzip", "deflate", "zlib", "rle", "rle"}).Draw(t, "encoding")
	case "fatwire":
		c.Encoding = rapid.SampledFrom([]string{"toy", "gzip", "zlib"}).Draw(t, "encoding")
	default:
		c.Encoding = rapid.SampledFrom([]string{"", "", "gzip", "toy"}).Draw(t, "encoding")
	}
	c.ContentLength = c.Dir == "handler" && rapid.Bool().Draw(t, "contentLength")
	if multi(c.Dir, c.Kind) {
		c.Good = rapid.IntRange(0, 3).Draw(t, "good")
		c.GoodComp = rapid.Bool().Draw(t, "goodcomp")
	}
	return c
}

var spec = pbt.Spec[Case]{
	Prop: "C09", Name: "limits", Gen: gen, Check: check,
	Rule: "read limit N (16..64 KiB incl. 511/512/513 and random) on a handler (requests served synchronously) or a client (scripted responses) × 3 protocols × 2 codecs × 4 kinds; 0..3 acceptable messages (sizes N, N−1, N−2, optionally compressed) followed by a probe built to an exact encoded size: N−1, N, N+1, 2N, 8N+100000; compressed with wire ≤ N < decompressed (bomb: 4N+50000, and exactly N+1), compressed with decompressed ≤ N < wire (fat wire), compressed and within N both ways; lying prefixes (declares N with N/2 bytes present; declares 4N+1000 or 2^32−1 with 12 bytes); oversize frames carrying a protocol-specific flag (end-of-stream / trailers); limits at and beyond 2^31/2^32 with ordinary 100-byte messages. Oracle: non-delivery model (nothing over N by either measure reaches the application, everything within N does, earlier messages intact, refusal code ∈ {invalid_argument, resource_exhausted}); non-trivial = the probe could be built for this configuration",
}

func TestLimits(t *testing.T) { pbt.Run(t, spec) }

// TestAlloc: a peer cannot make the receiver buffer substantially more than N.
func TestAlloc(t *testing.T) {
	defer pbt.Flush()
	total := 0
	var samples []any
	bombs := map[int][]byte{}
	for _, N := range []int{4096, 65536, 1 << 20} {
		for _, dir := range []string{"handler", "client"} {
			for _, protocol := range prog.Protocols {
				for _, kind := range []string{prog.Unary, prog.Bidi} {
					for _, probe := range []string{"n", "hugebomb", "lie-long", "lie-max", "big", "flagged-big", "flagged-lie", "lie-content-length", "lie-content-length-huge"} {
						c := Case{Dir: dir, Protocol: protocol, Codec: "proto", Kind: kind, N: N, Probe: probe, Encoding: "gzip"}
						lieCL := strings.HasPrefix(probe, "lie-content-length")
						if lieCL {
							// a small acceptable message under a Content-Length of 8 MiB − 1 resp. 2 GiB
							if !(protocol == "connect" && kind == prog.Unary) {
								continue
							}
							c.Probe, c.Encoding = "small", ""
							c.LieCL = 8<<20 - 1
							if probe == "lie-content-length-huge" {
								c.LieCL = 1 << 31
							}
						}
						var p plan
						if probe == "hugebomb" {
							// decompresses to 64N + 32 MiB of one repeated byte
							size := 64*N + 32<<20
							z, ok := bombs[N]
							if !ok {
								z = comp.Compress("gzip", refwire.EncodePing("proto", 0, strings.Repeat("q", size)))
								bombs[N] = z
							}
							b := built{payload: z, flags: refwire.FlagCompressed, wire: len(z), decomp: size + 6}
							p.msgs = []built{b}
							if protocol == "connect" && kind == prog.Unary {
								p.body = z
							} else {
								p.body = frame(b)
							}
						} else {
							if probe != "n" {
								c.Encoding = ""
							}
							var ok bool
							p, ok = makePlan(c)
							if !ok {
								continue
							}
						}
						// warm up pools, then measure
						var o outcome
						for i := 0; i < 2; i++ {
							if dir == "handler" {
								o = runHandler(c, p, true)
							} else {
								o = runClient(c, p, true)
							}
						}
						total++
						bound := uint64(12*N + 4<<20)
						if o.allocated > bound {
							err := fmt.Errorf("%s-side limit N=%d %s/%s probe %s: the call allocated %d bytes (bound %d): the peer made the receiver buffer far more than N", dir, N, protocol, kind, probe, o.allocated, bound)
							path := pbt.SaveReplay(spec, c, err)
							fmt.Printf("VIOLATION property=C09 replay=%s\n", path)
							t.Fatalf("C09/alloc violated: %v", err)
						}
						if probe != "n" && !lieCL && !o.failed {
							t.Fatalf("HARNESS: probe %s not refused", probe)
						}
						if len(samples) < 4 {
							samples = append(samples, map[string]any{"case": c, "allocated_bytes": o.allocated, "bound": bound})
						}
					}
				}
			}
		}
	}
	pbt.RecordBulk("C09", "alloc", "N ∈ {4 KiB, 64 KiB, 1 MiB} × {handler, client} × 3 protocols × {unary, bidi} × {message of exactly N, gzip bomb decompressing to 64N+32 MiB, prefix declaring 4N+1000, prefix declaring 2^32−1, 8N+100000 plain, 4N+1000 bytes under an end-of-stream/trailer flag, and for unary Connect a small message under a Content-Length of 8 MiB−1 resp. 2 GiB}: runtime.MemStats.TotalAlloc delta around one call must stay ≤ 12·N + 4 MiB (the constant covers one-off compressor state ≈ 0.8 MiB; a limit that stopped working would show ≥ 64·N + 32 MiB for the bomb and ≥ 4N for lying prefixes only if the bytes were actually buffered); every case is non-trivial", total, total, true, samples...)
}

func TestReplay(t *testing.T) { pbt.ReplayMain(t, pbt.Replayer(spec)) }
