// Package c18link reaches connect-go's unexported wire codecs through
// go:linkname so that the complete finite domains (all 2^32 codes, all byte
// strings of length ≤ 3) can be enumerated at in-process speed. If a refactor
// renames these functions the package no longer links; the driver then skips
// this optional sub-check and the black-box checks in ../c18 still decide.
package c18link

import (
	"fmt"
	"os"
	"strconv"
	"sync"
	"testing"
	_ "unsafe"

	connect "github.com/bufbuild/connect-go"
	"github.com/bufbuild/connect-go/verif/pbt"
	"github.com/bufbuild/connect-go/verif/refwire"
)

// bufferPool mirrors connect's unexported type (a struct embedding sync.Pool).
type bufferPool struct {
	sync.Pool
}

//go:linkname newBufferPool github.com/bufbuild/connect-go.newBufferPool
func newBufferPool() *bufferPool

//go:linkname grpcPercentEncode github.com/bufbuild/connect-go.grpcPercentEncode
func grpcPercentEncode(pool *bufferPool, msg string) string

//go:linkname grpcPercentDecode github.com/bufbuild/connect-go.grpcPercentDecode
func grpcPercentDecode(pool *bufferPool, encoded string) string

//go:linkname connectCodeToHTTP github.com/bufbuild/connect-go.connectCodeToHTTP
func connectCodeToHTTP(code connect.Code) int

func shard() (int, int) {
	i, _ := strconv.Atoi(os.Getenv("VERIF_SHARD_INDEX"))
	n, _ := strconv.Atoi(os.Getenv("VERIF_SHARDS"))
	if n <= 0 {
		n = 1
	}
	return i, n
}

type Case struct {
	Code  uint32 `json:"code,omitempty"`
	Bytes []byte `json:"bytes,omitempty"`
	What  string `json:"what"`
}

var spec = pbt.Spec[Case]{Prop: "C18", Name: "linked-enum", Check: func(tt *testing.T, c Case) (pbt.Info, error) {
	switch c.What {
	case "status":
		return pbt.Info{}, checkStatus(c.Code)
	default:
		return pbt.Info{}, checkPercent(newBufferPool(), c.Bytes)
	}
}}

func checkStatus(c uint32) error {
	st := connectCodeToHTTP(connect.Code(c))
	if st < 400 || st > 599 {
		return fmt.Errorf("code %d maps to HTTP status %d (must be 4xx/5xx)", c, st)
	}
	return nil
}

func checkPercent(pool *bufferPool, b []byte) error {
	s := string(b)
	enc := grpcPercentEncode(pool, s)
	if !refwire.IsHeaderSafe(enc) {
		return fmt.Errorf("percent-encoding of %x is %q: not printable ASCII", b, enc)
	}
	if dec := grpcPercentDecode(pool, enc); dec != s {
		return fmt.Errorf("percent round trip %x → %q → %x", b, enc, dec)
	}
	if ref, ok := refwire.PercentDecode(enc); !ok || ref != s {
		return fmt.Errorf("percent-encoding %q of %x is not decodable by the reference decoder (%x, %v)", enc, b, ref, ok)
	}
	// decoder is total on arbitrary input, and agrees with the reference on
	// the reference's (lower-case) encoding
	_ = grpcPercentDecode(pool, s)
	if dec := grpcPercentDecode(pool, refwire.PercentEncode(s, true)); dec != s {
		return fmt.Errorf("lower-case-hex encoding of %x decodes to %x", b, dec)
	}
	return nil
}

func fail(t *testing.T, c Case, err error) {
	path := pbt.SaveReplay(spec, c, err)
	fmt.Printf("VIOLATION property=C18 replay=%s\n", path)
	t.Fatalf("C18/linked-enum violated: %v", err)
}

func TestStatusAllCodes(t *testing.T) {
	defer pbt.Flush()
	idx, n := shard()
	lo := uint64(idx) * (1 << 32) / uint64(n)
	hi := uint64(idx+1) * (1 << 32) / uint64(n)
	if !pbt.Thorough() {
		// quick: 2^24 values per shard spread over the range
		hi = lo + 1<<24
	}
	total := 0
	for c := lo; c < hi; c++ {
		total++
		if err := checkStatus(uint32(c)); err != nil {
			fail(t, Case{What: "status", Code: uint32(c)}, err)
		}
	}
	pbt.RecordBulk("C18", "code-http-status-enum", "code → HTTP status for code values enumerated in-process (thorough: all 2^32; quick: 2^24 per shard); every one is non-trivial (distinct input)", total, total, pbt.Thorough(), map[string]any{"code": 17, "status": connectCodeToHTTP(17)})
}

func TestPercentAllShort(t *testing.T) {
	defer pbt.Flush()
	idx, n := shard()
	pool := newBufferPool()
	total, nt := 0, 0
	do := func(b []byte) {
		total++
		for _, c := range b {
			if c < 0x20 || c > 0x7e || c == '%' {
				nt++
				break
			}
		}
		if err := checkPercent(pool, b); err != nil {
			fail(t, Case{What: "percent", Bytes: b}, err)
		}
	}
	if idx == 0 {
		do(nil)
		for a := 0; a < 256; a++ {
			do([]byte{byte(a)})
		}
	}
	for a := idx; a < 256; a += n {
		for b := 0; b < 256; b++ {
			do([]byte{byte(a), byte(b)})
			for c := 0; c < 256; c++ {
				do([]byte{byte(a), byte(b), byte(c)})
			}
		}
	}
	pbt.RecordBulk("C18", "percent-linked-enum", "ALL byte strings of length ≤ 3 through the library's own percent-encoder and decoder (reached with go:linkname): printable-ASCII output, round trip, decodable by the reference decoder, lower-case hex accepted, decoder total; non-trivial = needs escaping", total, nt, true, map[string]any{"bytes_hex": "00ff25", "encoded": grpcPercentEncode(pool, "\x00\xff%")})
}

func TestReplay(t *testing.T) { pbt.ReplayMain(t, pbt.Replayer(spec)) }
