package c13

import (
	"context"
	"errors"
	"fmt"
	"io"
	"net"
	"net/http"
	"runtime"
	"runtime/debug"
	"strings"
	"sync"
	"testing"
	"time"

	connect "github.com/bufbuild/connect-go"
	pingv1 "github.com/bufbuild/connect-go/internal/gen/connect/ping/v1"
	"github.com/bufbuild/connect-go/verif/memnet"
	"github.com/bufbuild/connect-go/verif/pbt"
	"github.com/bufbuild/connect-go/verif/prog"
	"pgregory.net/rapid"
)

// CallSpec is one call of the plan; its payloads are a function of ID.
type CallSpec struct {
	ID       int    `json:"id"`
	Protocol string `json:"protocol"`
	Codec    string `json:"codec"`
	Send     string `json:"send"` // client send compression ("" none)
	Kind     string `json:"kind"`
	NMsgs    int    `json:"nmsgs"` // request messages (client/bidi) or responses asked for (server)
	Size     int    `json:"size"`
	Fail     bool   `json:"fail"`
	// Bomb: the (compressed) request decompresses to more than the handlers'
	// read limit; this call must fail with the documented code and must not
	// disturb any other call.
	Bomb bool `json:"bomb,omitempty"`
}

type Plan struct {
	Transport string       `json:"transport"` // mem | sock
	Workers   [][]CallSpec `json:"workers"`
}

func reqMsg(c CallSpec, i int) prog.Msg {
	if c.Bomb {
		return prog.Msg{N: int64(c.ID)*1000 + int64(i), TLen: 400000, TSeed: 1000 + c.ID%900} // highly compressible
	}
	if c.Kind == prog.Server {
		// the number's last three digits tell the handler how many messages to send
		i = c.NMsgs
	}
	return prog.Msg{N: int64(c.ID)*1000 + int64(i), TLen: c.Size + i, TSeed: c.ID % 900}
}

// the handlers are pure functions of the request
func respText(reqText string) string { return "re:" + reqText }
func respNum(n int64) int64          { return n*3 + 1 }
func failCode(id int64) connect.Code { return connect.Code(id%16 + 1) }

func wantsFail(n int64) bool { return (n/1000)%5 == 0 || wantsShared(n) || wantsEarly(n) }

// Some bidi calls are failed by the handler right after the first request
// message, while the client's sender goroutine still has a lot to send: the
// receiver goroutine learns about the end of the stream while Send is running.
func wantsEarly(n int64) bool { return (n/1000)%11 == 4 }

const earlyExtra = 30

// Some failing calls return one shared sentinel *connect.Error value (with
// metadata), the way applications return package-level errors. The library
// may read it from any number of calls but must not change it.
func wantsShared(n int64) bool { return (n/1000)%7 == 3 }

func newSentinel() *connect.Error {
	e := connect.NewError(connect.CodeUnavailable, errors.New("shared-sentinel"))
	e.Meta().Set("X-Shared", "yes")
	return e
}

var sentinel = newSentinel()

func sentinelIntact() error {
	m := sentinel.Meta()
	if len(m) != 1 || len(m["X-Shared"]) != 1 || m["X-Shared"][0] != "yes" || sentinel.Code() != connect.CodeUnavailable || sentinel.Message() != "shared-sentinel" {
		return fmt.Errorf("the shared error value returned by handlers was modified by the library: code %v, message %q, metadata %v (was unavailable, \"shared-sentinel\", map[X-Shared:[yes]])", sentinel.Code(), sentinel.Message(), m)
	}
	return nil
}

func callErr(n int64) error {
	id := n / 1000
	if wantsShared(n) {
		return sentinel
	}
	e := connect.NewError(failCode(id), fmt.Errorf("err-of-call-%d", id))
	e.Meta().Set("X-Err-Call", fmt.Sprint(id))
	return e
}

// keptRequests: the unary handler keeps some of the *connect.Request values it
// was handed (as an audit log or an asynchronous worker would); they must stay
// what they were after the handler returned and while other calls run.
type keptRequest struct {
	req  *connect.Request[pingv1.PingRequest]
	n    int64
	text string
	tag  string
}

var kept struct {
	mu   sync.Mutex
	reqs []keptRequest
}

func keptReset() {
	kept.mu.Lock()
	kept.reqs = nil
	kept.mu.Unlock()
}

func keptIntact() error {
	kept.mu.Lock()
	defer kept.mu.Unlock()
	for _, k := range kept.reqs {
		if k.req.Msg == nil || k.req.Msg.Number != k.n || k.req.Msg.Text != k.text || k.req.Header().Get("X-Call") != k.tag {
			var n int64
			var text string
			if k.req.Msg != nil {
				n, text = k.req.Msg.Number, k.req.Msg.Text
			}
			return fmt.Errorf("a *connect.Request that a unary handler kept (message %d/%d bytes of text, header X-Call=%q) has changed after the handler returned: now message %d/%d bytes, X-Call=%q", k.n, len(k.text), k.tag, n, len(text), k.req.Header().Get("X-Call"))
		}
	}
	return nil
}

func handlers() http.Handler {
	opts := prog.Config{HComp: []string{"deflate", "toy"}, HReadMax: 200000}.HandlerOptions()
	mux := http.NewServeMux()
	mux.Handle(prog.Procedure(prog.Unary), connect.NewUnaryHandler(prog.Procedure(prog.Unary), func(ctx context.Context, r *connect.Request[pingv1.PingRequest]) (*connect.Response[pingv1.PingResponse], error) {
		if (r.Msg.Number/1000)%3 == 0 {
			kept.mu.Lock()
			if len(kept.reqs) < 4096 {
				kept.reqs = append(kept.reqs, keptRequest{req: r, n: r.Msg.Number, text: r.Msg.Text, tag: r.Header().Get("X-Call")})
			}
			kept.mu.Unlock()
		}
		if wantsFail(r.Msg.Number) {
			return nil, callErr(r.Msg.Number)
		}
		res := connect.NewResponse(&pingv1.PingResponse{Number: respNum(r.Msg.Number), Text: respText(r.Msg.Text)})
		res.Header().Set("X-Call", r.Header().Get("X-Call"))
		res.Trailer().Set("X-Call-T", r.Header().Get("X-Call"))
		return res, nil
	}, opts...))
	mux.Handle(prog.Procedure(prog.Client), connect.NewClientStreamHandler(prog.Procedure(prog.Client), func(ctx context.Context, s *connect.ClientStream[pingv1.PingRequest]) (*connect.Response[pingv1.PingResponse], error) {
		var sum int64
		var last string
		var first int64 = -1
		for s.Receive() {
			if first < 0 {
				first = s.Msg().Number
			}
			sum += s.Msg().Number
			last = s.Msg().Text
		}
		if err := s.Err(); err != nil {
			return nil, err
		}
		if first >= 0 && wantsFail(first) {
			return nil, callErr(first)
		}
		res := connect.NewResponse(&pingv1.PingResponse{Number: sum, Text: respText(last)})
		res.Header().Set("X-Call", s.RequestHeader().Get("X-Call"))
		return res, nil
	}, opts...))
	mux.Handle(prog.Procedure(prog.Server), connect.NewServerStreamHandler(prog.Procedure(prog.Server), func(ctx context.Context, r *connect.Request[pingv1.PingRequest], s *connect.ServerStream[pingv1.PingResponse]) error {
		s.ResponseHeader().Set("X-Call", r.Header().Get("X-Call"))
		k := int(r.Msg.Number % 1000)
		for i := 0; i < k; i++ {
			if err := s.Send(&pingv1.PingResponse{Number: respNum(r.Msg.Number) + int64(i), Text: respText(r.Msg.Text)}); err != nil {
				return err
			}
		}
		s.ResponseTrailer().Set("X-Call-T", r.Header().Get("X-Call"))
		if wantsFail(r.Msg.Number) {
			return callErr(r.Msg.Number)
		}
		return nil
	}, opts...))
	mux.Handle(prog.Procedure(prog.Bidi), connect.NewBidiStreamHandler(prog.Procedure(prog.Bidi), func(ctx context.Context, s *connect.BidiStream[pingv1.PingRequest, pingv1.PingResponse]) error {
		s.ResponseHeader().Set("X-Call", s.RequestHeader().Get("X-Call"))
		s.ResponseTrailer().Set("X-Call-T", s.RequestHeader().Get("X-Call"))
		var first int64 = -1
		for {
			m, err := s.Receive()
			if errors.Is(err, io.EOF) {
				break
			}
			if err != nil {
				return err
			}
			if first < 0 {
				first = m.Number
				if wantsEarly(first) {
					return callErr(first)
				}
			}
			if err := s.Send(&pingv1.PingResponse{Number: respNum(m.Number), Text: respText(m.Text)}); err != nil {
				return err
			}
		}
		if first >= 0 && wantsFail(first) {
			return callErr(first)
		}
		return nil
	}, opts...))
	return mux
}

type result struct {
	spec    CallSpec
	got     []prog.Obs
	err     *prog.ErrView
	errText string
	header  http.Header
	trailer http.Header
}

type clientKey struct{ protocol, codec, send, kind string }

func expected(c CallSpec) (msgs []prog.Obs, fail bool) {
	first := reqMsg(c, 0)
	fail = wantsFail(first.N)
	switch c.Kind {
	case prog.Unary:
		if !fail {
			msgs = []prog.Obs{{N: respNum(first.N), T: respText(first.Text())}}
		}
	case prog.Client:
		var sum int64
		last := ""
		for i := 0; i < c.NMsgs; i++ {
			m := reqMsg(c, i)
			sum += m.N
			last = m.Text()
		}
		if c.NMsgs == 0 {
			fail = false
		}
		if !fail {
			msgs = []prog.Obs{{N: sum, T: respText(last)}}
		}
	case prog.Server:
		k := int(first.N % 1000)
		for i := 0; i < k; i++ {
			msgs = append(msgs, prog.Obs{N: respNum(first.N) + int64(i), T: respText(first.Text())})
		}
	case prog.Bidi:
		for i := 0; i < c.NMsgs && !wantsEarly(first.N); i++ {
			m := reqMsg(c, i)
			msgs = append(msgs, prog.Obs{N: respNum(m.N), T: respText(m.Text())})
		}
		if c.NMsgs == 0 {
			fail = false
		}
	}
	return msgs, fail
}

func runCall(ctx context.Context, cl *connect.Client[pingv1.PingRequest, pingv1.PingResponse], c CallSpec) *result {
	r := &result{spec: c}
	tag := fmt.Sprintf("call-%d", c.ID)
	switch c.Kind {
	case prog.Unary:
		req := connect.NewRequest(reqMsg(c, 0).Req())
		req.Header().Set("X-Call", tag)
		res, err := cl.CallUnary(ctx, req)
		if err != nil {
			r.err, r.errText = prog.ViewErr(err), err.Error()
			return r
		}
		r.got = append(r.got, prog.ObsRes(res.Msg))
		r.header, r.trailer = res.Header(), res.Trailer()
	case prog.Client:
		s := cl.CallClientStream(ctx)
		s.RequestHeader().Set("X-Call", tag)
		for i := 0; i < c.NMsgs; i++ {
			if err := s.Send(reqMsg(c, i).Req()); err != nil {
				break
			}
		}
		res, err := s.CloseAndReceive()
		if err != nil {
			r.err, r.errText = prog.ViewErr(err), err.Error()
			return r
		}
		r.got = append(r.got, prog.ObsRes(res.Msg))
		r.header, r.trailer = res.Header(), res.Trailer()
	case prog.Server:
		m := reqMsg(c, 0)
		req := connect.NewRequest(m.Req())
		req.Header().Set("X-Call", tag)
		s, err := cl.CallServerStream(ctx, req)
		if err != nil {
			r.err, r.errText = prog.ViewErr(err), err.Error()
			return r
		}
		for s.Receive() {
			r.got = append(r.got, prog.ObsRes(s.Msg()))
		}
		if err := s.Err(); err != nil {
			r.err, r.errText = prog.ViewErr(err), err.Error()
		}
		r.header, r.trailer = s.ResponseHeader(), s.ResponseTrailer()
		_ = s.Close()
	case prog.Bidi:
		s := cl.CallBidiStream(ctx)
		// one bidirectional stream is sent on and received from concurrently;
		// for every other call the receiver is already waiting in Receive when
		// the sender sets its request headers and starts sending
		var wg sync.WaitGroup
		wg.Add(1)
		receiverFirst := c.ID%2 == 1 && c.NMsgs > 0
		started := make(chan struct{})
		if !receiverFirst {
			s.RequestHeader().Set("X-Call", tag)
			close(started)
		}
		go func() {
			defer wg.Done()
			if receiverFirst {
				<-started
				time.Sleep(time.Millisecond) // let the receiver reach Receive
				s.RequestHeader().Set("X-Call", tag)
			}
			n := c.NMsgs
			if n > 0 && wantsEarly(reqMsg(c, 0).N) {
				n += earlyExtra // keep sending while the handler ends the call
			}
			for i := 0; i < n; i++ {
				if err := s.Send(reqMsg(c, i).Req()); err != nil {
					break
				}
			}
			_ = s.CloseRequest()
		}()
		if receiverFirst {
			close(started)
		}
		for {
			m, err := s.Receive()
			if err != nil {
				if !errors.Is(err, io.EOF) {
					r.err, r.errText = prog.ViewErr(err), err.Error()
				}
				break
			}
			r.got = append(r.got, prog.ObsRes(m))
		}
		wg.Wait()
		r.header, r.trailer = s.ResponseHeader(), s.ResponseTrailer()
		_ = s.CloseResponse()
	}
	return r
}

func verify(r *result, phase string) error {
	c := r.spec
	if c.Bomb {
		if r.err == nil || (r.err.Code != 3 && r.err.Code != 8) {
			return fmt.Errorf("%s: call %d sends a message that decompresses beyond the handler's read limit; want invalid_argument/resource_exhausted, got %v", phase, c.ID, r.err)
		}
		return nil
	}
	want, fail := expected(c)
	where := fmt.Sprintf("%s: call %d (%s/%s/%s send=%q, %d msgs of ~%d B)", phase, c.ID, c.Protocol, c.Codec, c.Kind, c.Send, c.NMsgs, c.Size)
	if fail {
		if r.err == nil {
			return fmt.Errorf("%s: expected its own error, got success", where)
		}
		id := int64(c.ID)
		tag := fmt.Sprintf("call-%d", c.ID)
		for _, v := range r.err.Meta.Values("X-Call-T") {
			if v != tag {
				return fmt.Errorf("%s: error metadata carries X-Call-T=%q, a trailer of another call (all values: %q)", where, v, r.err.Meta.Values("X-Call-T"))
			}
		}
		if wantsShared(reqMsg(c, 0).N) {
			if r.err.Code != uint32(connect.CodeUnavailable) || r.err.Msg != "shared-sentinel" || r.err.Meta.Get("X-Shared") != "yes" {
				return fmt.Errorf("%s: handler returned the shared sentinel error (unavailable, \"shared-sentinel\", X-Shared: yes); got %v with metadata %v", where, r.err, r.err.Meta)
			}
			if got := r.err.Meta.Values("X-Err-Call"); len(got) != 0 {
				return fmt.Errorf("%s: error metadata X-Err-Call=%q belongs to another call", where, got)
			}
			if err := sentinelIntact(); err != nil {
				return fmt.Errorf("%s: %v", where, err)
			}
		} else {
			if r.err.Code != uint32(failCode(id)) || r.err.Msg != fmt.Sprintf("err-of-call-%d", id) {
				return fmt.Errorf("%s: got error %v — not this call's error (code %d, err-of-call-%d)", where, r.err, failCode(id), id)
			}
			if !strings.Contains(r.errText, fmt.Sprintf("err-of-call-%d", id)) {
				return fmt.Errorf("%s: retained error text changed: %q", where, r.errText)
			}
			if got := r.err.Meta.Get("X-Err-Call"); got != fmt.Sprint(id) {
				return fmt.Errorf("%s: error metadata X-Err-Call=%q belongs to another call", where, got)
			}
		}
	} else if r.err != nil {
		return fmt.Errorf("%s: unexpected error %v", where, r.err)
	}
	if c.Kind == prog.Unary || c.Kind == prog.Client {
		if fail {
			want = nil
		}
	}
	if len(r.got) != len(want) {
		return fmt.Errorf("%s: received %d messages, the same call alone yields %d", where, len(r.got), len(want))
	}
	for i := range want {
		if r.got[i] != want[i] {
			return fmt.Errorf("%s: message %d is %v, the same call alone yields %v — another call's data or a corrupted buffer", where, i, r.got[i], want[i])
		}
	}
	tag := fmt.Sprintf("call-%d", c.ID)
	if r.header != nil && !fail {
		if got := r.header.Get("X-Call"); got != tag {
			return fmt.Errorf("%s: response header X-Call=%q, want %q", where, got, tag)
		}
	}
	if r.trailer != nil && !fail && (c.Kind == prog.Unary || c.Kind == prog.Server) {
		got := r.trailer.Get("X-Call-T")
		if got == "" && len(want) == 0 && r.header != nil {
			got = r.header.Get("X-Call-T") // body-less responses may carry trailers as headers
		}
		if got != tag {
			return fmt.Errorf("%s: response trailer X-Call-T=%q, want %q", where, got, tag)
		}
	}
	return nil
}

type sock struct {
	srv *http.Server
	ln  net.Listener
	hc  *http.Client
	url string
}

func newSock(h http.Handler) (*sock, error) {
	ln, err := net.Listen("tcp", "127.0.0.1:0")
	if err != nil {
		return nil, err
	}
	p := new(http.Protocols)
	p.SetUnencryptedHTTP2(true)
	s := &sock{ln: ln, srv: &http.Server{Handler: h, Protocols: p}}
	go func() { _ = s.srv.Serve(ln) }()
	s.hc = &http.Client{Transport: &http.Transport{Protocols: p, DisableCompression: true}}
	s.url = "http://" + ln.Addr().String()
	return s, nil
}

func check(tt *testing.T, p Plan) (pbt.Info, error) {
	var info pbt.Info
	info.Label("transport:" + p.Transport)
	keptReset()
	h := handlers()
	var hc connect.HTTPClient
	base := prog.BaseURL
	var mem *memnet.Mem
	if p.Transport == "sock" {
		s, err := newSock(h)
		if err != nil {
			return info, nil // loopback sockets unavailable: nothing to decide
		}
		defer func() { s.hc.CloseIdleConnections(); _ = s.srv.Close() }()
		hc, base = s.hc, s.url
	} else {
		mem = &memnet.Mem{Handler: h}
		hc = mem
	}
	clients := map[clientKey]*connect.Client[pingv1.PingRequest, pingv1.PingResponse]{}
	var mu sync.Mutex
	client := func(c CallSpec) *connect.Client[pingv1.PingRequest, pingv1.PingResponse] {
		mu.Lock()
		defer mu.Unlock()
		k := clientKey{c.Protocol, c.Codec, c.Send, c.Kind}
		if cl, ok := clients[k]; ok {
			return cl
		}
		cfg := prog.Config{Protocol: c.Protocol, Codec: c.Codec, Kind: c.Kind, CAccept: []string{"deflate", "toy"}, CSend: c.Send}
		cl := connect.NewClient[pingv1.PingRequest, pingv1.PingResponse](hc, base+prog.Procedure(c.Kind), cfg.ClientOptions()...)
		clients[k] = cl
		return cl
	}
	// pre-create the shared clients (sharing is the point)
	classes := map[string]bool{}
	total := 0
	for _, w := range p.Workers {
		for _, c := range w {
			client(c)
			classes[fmt.Sprintf("%s/%d", c.Send, c.Size/1000)] = true
			total++
		}
	}
	ctx, cancel := context.WithTimeout(context.Background(), 120*time.Second)
	defer cancel()
	// prologue (sequential): one over-limit compressed request per handler-side
	// pool, so that whatever such a request leaves behind in the pools is
	// there when the concurrent part starts
	for i, send := range []string{"gzip", "deflate"} {
		c := CallSpec{ID: 800001 + i, Protocol: prog.Protocols[i%3], Codec: "proto", Kind: prog.Unary, Send: send, NMsgs: 1, Bomb: true}
		if err := verify(runCall(ctx, client(c), c), "prologue"); err != nil {
			return info, err
		}
	}
	results := make([][]*result, len(p.Workers))
	var wg sync.WaitGroup
	start := make(chan struct{})
	for wi, w := range p.Workers {
		wg.Add(1)
		go func(wi int, w []CallSpec) {
			defer wg.Done()
			<-start
			for _, c := range w {
				results[wi] = append(results[wi], runCall(ctx, client(c), c))
			}
		}(wi, w)
	}
	close(start)
	wg.Wait()
	if ctx.Err() != nil {
		return info, pbt.Inconclusive("plan did not finish within the 120 s watchdog")
	}
	overlapped := len(p.Workers) >= 2 && total >= 4
	if mem != nil {
		overlapped = mem.MaxInflight >= 2
	}
	info.NonTrivial = overlapped && len(classes) >= 2
	if overlapped {
		info.Label("calls-overlapped")
	}
	for _, rs := range results {
		for _, r := range rs {
			if err := verify(r, "immediately"); err != nil {
				return info, err
			}
		}
	}
	// epilogue: a burst of concurrent compressed calls of substantial size on
	// the shared pools
	{
		// (again right before the burst, with the collector paused: sync.Pool
		// contents do not survive garbage collections, and the plan allocates a lot)
		oldGC := debug.SetGCPercent(-1)
		for i, send := range []string{"gzip", "deflate", "gzip", "deflate"} {
			c := CallSpec{ID: 800101 + i, Protocol: prog.Protocols[i%3], Codec: "proto", Kind: prog.Unary, Send: send, NMsgs: 1, Bomb: true}
			if err := verify(runCall(ctx, client(c), c), "second prologue"); err != nil {
				return info, err
			}
		}
		var wg sync.WaitGroup
		errs := make(chan error, 64)
		for w := 0; w < 16; w++ {
			wg.Add(1)
			go func(w int) {
				defer wg.Done()
				for i := 0; i < 4; i++ {
					c := CallSpec{ID: 700001 + w*10 + i, Protocol: prog.Protocols[(w+i)%3], Codec: "proto", Kind: prog.Unary, Send: []string{"gzip", "deflate"}[i%2], NMsgs: 1, Size: 60000}
					if c.ID%5 == 0 {
						c.ID++ // not one of the calls that fail by design
					}
					if err := verify(runCall(ctx, client(c), c), "concurrent burst on the shared pools"); err != nil {
						errs <- err
					}
				}
			}(w)
		}
		wg.Wait()
		close(errs)
		for err := range errs {
			debug.SetGCPercent(oldGC)
			return info, err
		}
		// … and a storm of small calls: many buffer-pool Get/Put pairs per
		// unit of time, all kinds of outcomes, pairwise distinct payloads
		errs = make(chan error, 16*41)
		for w := 0; w < 16; w++ {
			wg.Add(1)
			go func(w int) {
				defer wg.Done()
				// one bidi call that the handler fails early while this
				// goroutine's sender is still busy
				if ec := (CallSpec{ID: 650104 + 11*w, Protocol: prog.Protocols[w%3], Codec: "proto", Kind: prog.Bidi, NMsgs: 2, Size: 2000}); !wantsShared(reqMsg(ec, 0).N) {
					if err := verify(runCall(ctx, client(ec), ec), "bidi call failed early by the handler while the sender goroutine is sending"); err != nil {
						errs <- err
						return
					}
				}
				for i := 0; i < 40; i++ {
					c := CallSpec{ID: 600000 + w*100 + i, Protocol: prog.Protocols[(w+i)%3], Codec: prog.Codecs[(w/3+i)%2], Kind: prog.Unary, Send: []string{"", "gzip", ""}[i%3], NMsgs: 1, Size: 40 + (w*40+i)%400}
					if err := verify(runCall(ctx, client(c), c), "storm of small concurrent calls"); err != nil {
						errs <- err
						return
					}
				}
			}(w)
		}
		wg.Wait()
		debug.SetGCPercent(oldGC)
		close(errs)
		for err := range errs {
			return info, err
		}
	}
	// pool churn, then the values handed to user code must still be intact
	for i := 0; i < 8; i++ {
		c := CallSpec{ID: 900001 + i, Protocol: prog.Protocols[i%3], Codec: "proto", Kind: prog.Unary, Size: 2000 + i, Send: "gzip"}
		_ = runCall(ctx, client(c), c)
	}
	runtime.GC()
	for _, rs := range results {
		for _, r := range rs {
			if err := verify(r, "after all other calls finished and the pools were churned"); err != nil {
				return info, err
			}
		}
	}
	if err := keptIntact(); err != nil {
		return info, err
	}
	return info, nil
}

func gen(transport string, maxG, maxK int) func(t *rapid.T) Plan {
	return func(t *rapid.T) Plan {
		p := Plan{Transport: transport}
		g := rapid.IntRange(2, maxG).Draw(t, "goroutines")
		id := 1
		for w := 0; w < g; w++ {
			k := rapid.IntRange(1, maxK).Draw(t, "calls")
			var calls []CallSpec
			for i := 0; i < k; i++ {
				c := CallSpec{
					ID:       id,
					Protocol: rapid.SampledFrom(prog.Protocols).Draw(t, "protocol"),
					Codec:    rapid.SampledFrom(prog.Codecs).Draw(t, "codec"),
					Send:     rapid.SampledFrom([]string{"", "gzip", "deflate", "toy"}).Draw(t, "send"),
					Kind:     rapid.SampledFrom(prog.Kinds).Draw(t, "kind"),
					NMsgs:    rapid.IntRange(0, 4).Draw(t, "nmsgs"),
					Size:     rapid.SampledFrom([]int{0, 5, 400, 520, 3000, 70000}).Draw(t, "size"),
				}
				if (c.Kind == prog.Unary || c.Kind == prog.Client) && c.Send != "" && rapid.IntRange(0, 7).Draw(t, "bomb") == 0 {
					c.Bomb = true
					if c.NMsgs == 0 {
						c.NMsgs = 1
					}
				}
				id++
				calls = append(calls, c)
			}
			p.Workers = append(p.Workers, calls)
		}
		return p
	}
}

const rule = "plans of G goroutines × K calls with pairwise-distinct, self-describing payloads (every number and text derives from the call id) of mixed protocol, codec, send-compression (none/gzip/deflate/stateful toy), RPC kind, message count and size (0 B..70 KB), all through ONE handler set and ONE shared client per configuration; bidi calls use separate sender and receiver goroutines; some calls (and a sequential prologue) carry a compressed request that decompresses beyond the handlers' read limit (must fail alone); a burst of 16×4 concurrent 60 KB compressed calls follows the plan (again preceded by over-limit requests, collector paused); built with -race and the buffer-poisoning hook. Oracle: each call's result equals what the same call yields alone (handlers are pure functions of the request), every retained value is re-verified after all calls finished and the pools were churned, and the race detector must stay silent. Non-trivial = calls overlapped in time (in-flight counter ≥ 2) and at least two compression/size classes"

var specMem = pbt.Spec[Plan]{Prop: "C13", Name: "plans-mem", Gen: gen("mem", 8, 6), Check: check, Rule: rule}
var specSock = pbt.Spec[Plan]{Prop: "C13", Name: "plans-sock", Gen: gen("sock", 16, 8), Check: check, Rule: "as [plans-mem] over real loopback TCP sockets with net/http's HTTP/2 (h2c) server and transport: real parallel I/O"}

func TestPlansMem(t *testing.T)  { pbt.Run(t, specMem) }
func TestPlansSock(t *testing.T) { pbt.Run(t, specSock) }
func TestReplay(t *testing.T) {
	pbt.ReplayMain(t, pbt.Replayer(specMem), pbt.Replayer(specSock), pbt.Replayer(specRetained), pbt.Replayer(specPeers))
}
