package c13

import (
	"bytes"
	"fmt"
	"reflect"
	"testing"

	"github.com/bufbuild/connect-go/verif/memnet"
	"github.com/bufbuild/connect-go/verif/pbt"
	"github.com/bufbuild/connect-go/verif/prog"
	"github.com/bufbuild/connect-go/verif/refwire"
	"pgregory.net/rapid"
)

// "Each call's result is what the same call would produce alone", seen from
// the handler: a sequence of raw requests from different peers (different
// compression, accept lists, codecs, protocols) is served by ONE handler set;
// every response must be byte-identical to what a fresh handler set answers
// to that request alone.

type PeerReq struct {
	Protocol string   `json:"protocol"`
	Codec    string   `json:"codec"`
	Kind     string   `json:"kind"` // unary | server
	Enc      string   `json:"enc,omitempty"`
	Accept   []string `json:"accept,omitempty"`
	N        int64    `json:"n"`
	Size     int      `json:"size"`
}

type PeersCase struct {
	Reqs []PeerReq `json:"reqs"`
}

func checkPeers(tt *testing.T, c PeersCase) (pbt.Info, error) {
	var info pbt.Info
	shared := handlers()
	encs := map[string]bool{}
	for i, p := range c.Reqs {
		encs[p.Enc+"/"+fmt.Sprint(p.Accept)] = true
		msg := prog.Msg{N: p.N*1000 + 1, TLen: p.Size, TSeed: int(p.N) % 900}
		if wantsFail(msg.N) {
			msg.N += 1000 // a succeeding call
		}
		req := refwire.BuildRequest(&refwire.ReqSpec{
			Protocol: p.Protocol, Kind: p.Kind, Codec: p.Codec,
			Msgs:     [][]byte{refwire.EncodePing(p.Codec, msg.N, msg.Text())},
			Encoding: p.Enc, CompressMsg: []bool{p.Enc != ""}, Accept: p.Accept,
		})
		req.Header.Set("X-Call", fmt.Sprintf("call-%d", i))
		got := memnet.Serve(shared, "POST", prog.Procedure(p.Kind), req.Header.Clone(), bytes.NewReader(req.Body), memnet.ServeOpts{})
		alone := memnet.Serve(handlers(), "POST", prog.Procedure(p.Kind), req.Header.Clone(), bytes.NewReader(req.Body), memnet.ServeOpts{})
		if got.Status != alone.Status || !reflect.DeepEqual(got.Header, alone.Header) || !bytes.Equal(got.Body, alone.Body) || !reflect.DeepEqual(got.Trailer, alone.Trailer) || got.Panicked != alone.Panicked {
			return info, fmt.Errorf("request %d of %+v: a handler that served the earlier peers answers\n  status %d headers %v trailers %v body %d bytes %x…\nthe same request alone (fresh handler) is answered\n  status %d headers %v trailers %v body %d bytes %x…",
				i, c.Reqs, got.Status, got.Header, got.Trailer, len(got.Body), head(got.Body), alone.Status, alone.Header, alone.Trailer, len(alone.Body), head(alone.Body))
		}
	}
	info.NonTrivial = len(c.Reqs) >= 2 && len(encs) >= 2
	return info, nil
}

func head(b []byte) []byte {
	if len(b) > 32 {
		return b[:32]
	}
	return b
}

var specPeers = pbt.Spec[PeersCase]{
	Prop: "C13", Name: "handler-peers",
	Gen: func(t *rapid.T) PeersCase {
		var c PeersCase
		n := rapid.IntRange(2, 5).Draw(t, "n")
		for i := 0; i < n; i++ {
			p := PeerReq{
				Protocol: rapid.SampledFrom(prog.Protocols).Draw(t, "protocol"),
				Codec:    rapid.SampledFrom(prog.Codecs).Draw(t, "codec"),
				Kind:     rapid.SampledFrom([]string{prog.Unary, prog.Server}).Draw(t, "kind"),
				Enc:      rapid.SampledFrom([]string{"", "", "gzip", "deflate"}).Draw(t, "enc"),
				N:        int64(rapid.IntRange(1, 800).Draw(t, "n")),
				Size:     rapid.SampledFrom([]int{5, 300, 5000}).Draw(t, "size"),
			}
			switch rapid.IntRange(0, 3).Draw(t, "acc") {
			case 1:
				p.Accept = []string{"gzip"}
			case 2:
				p.Accept = []string{"deflate", "gzip"}
			case 3:
				p.Accept = []string{"toy", "deflate"}
			}
			c.Reqs = append(c.Reqs, p)
		}
		return c
	},
	Check: checkPeers,
	Rule:  "2..5 raw requests from different peers (3 protocols × 2 codecs × {unary, server stream} × request compression none/gzip/deflate × accept lists none/[gzip]/[deflate gzip]/[toy deflate] × sizes) served one after the other by ONE handler set; each response must be byte-identical (status, headers, body, trailers) to the answer of a fresh handler set to the same request alone; non-trivial = at least two different compression/accept combinations in the sequence",
}

func TestPeers(t *testing.T) { pbt.Run(t, specPeers) }
