package c13

import (
	"bytes"
	"context"
	"fmt"
	"net/http"
	"reflect"
	"testing"

	connect "github.com/bufbuild/connect-go"
	pingv1 "github.com/bufbuild/connect-go/internal/gen/connect/ping/v1"
	"github.com/bufbuild/connect-go/verif/memnet"
	"github.com/bufbuild/connect-go/verif/pbt"
	"github.com/bufbuild/connect-go/verif/prog"
	"github.com/bufbuild/connect-go/verif/refwire"
	"pgregory.net/rapid"
)

// "Values handed to user code - messages, headers, error text - stay intact
// while and after other calls run": a sequence of calls through ONE client
// against scripted responses of various (also defective) shapes; every error,
// header and trailer object the application was handed is kept, viewed right
// after its call and viewed again after all later calls.

type RetainedCase struct {
	Protocol string   `json:"protocol"`
	Kind     string   `json:"kind"` // unary | server
	Shapes   []string `json:"shapes"`
}

var retainedShapes = []string{"ok", "status-error", "no-terminator", "http-503", "bad-payload", "trailers-only-error"}

// scripted returns the response for call i.
func scripted(c RetainedCase, i int, shape string) *memnet.Script {
	ct := refwire.ContentType(c.Protocol, c.Kind, "proto")
	tag := fmt.Sprintf("call-%d", i)
	hdr := http.Header{"Content-Type": {ct}, "X-Call": {tag}}
	trailer := http.Header{}
	msg := refwire.EncodePing("proto", int64(100+i), tag)
	var body []byte
	unaryConnect := c.Protocol == "connect" && c.Kind == prog.Unary
	frame := func(flags byte, p []byte) {
		if unaryConnect {
			body = append(body, p...)
		} else {
			body = refwire.AppendFrame(body, flags, p)
		}
	}
	status := 200
	terminate := func(code int, text string) {
		switch c.Protocol {
		case "grpc":
			trailer.Set("Grpc-Status", fmt.Sprint(code))
			if text != "" {
				trailer.Set("Grpc-Message", text)
			}
			trailer.Set("X-Trailer-Call", tag)
		case "grpcweb":
			blk := fmt.Sprintf("grpc-status: %d\r\nx-trailer-call: %s\r\n", code, tag)
			if text != "" {
				blk += "grpc-message: " + text + "\r\n"
			}
			body = refwire.AppendFrame(body, refwire.FlagGRPCWebTrailer, []byte(blk))
		case "connect":
			if unaryConnect {
				if code != 0 {
					status, body = 404, []byte(fmt.Sprintf(`{"code":"not_found","message":%q}`, text))
					hdr.Set("Content-Type", "application/json")
				}
				hdr.Set("Trailer-X-Trailer-Call", tag)
				return
			}
			end := fmt.Sprintf(`{"metadata":{"x-trailer-call":[%q]}}`, tag)
			if code != 0 {
				end = fmt.Sprintf(`{"error":{"code":"not_found","message":%q},"metadata":{"x-trailer-call":[%q]}}`, text, tag)
			}
			body = refwire.AppendFrame(body, refwire.FlagConnectEnd, []byte(end))
		}
	}
	switch shape {
	case "ok":
		frame(0, msg)
		terminate(0, "")
	case "status-error":
		if c.Kind == prog.Server {
			frame(0, msg)
		}
		terminate(5, "nope-"+tag)
	case "no-terminator":
		frame(0, msg) // and then the stream just ends
	case "http-503":
		status, body = 503, []byte("upstream "+tag+" unavailable")
		hdr.Set("Content-Type", "text/plain")
	case "bad-payload":
		frame(0, []byte{0x0a, 0x05, 0x41})
		terminate(0, "")
	case "trailers-only-error":
		if c.Protocol == "connect" {
			terminate(5, "nope-"+tag)
		} else {
			hdr.Set("Grpc-Status", "5")
			hdr.Set("Grpc-Message", "nope-"+tag)
		}
	}
	return memnet.NewScript(status, hdr, bytes.NewReader(body), trailer)
}

type retainedView struct {
	Err     *prog.ErrView
	Header  http.Header
	Trailer http.Header
	Msgs    []prog.Obs
}

type retainedObj struct {
	err     error
	header  http.Header
	trailer http.Header
	msgs    []*pingv1.PingResponse
}

func (o *retainedObj) view() retainedView {
	v := retainedView{Err: prog.ViewErr(o.err), Header: o.header.Clone(), Trailer: o.trailer.Clone()}
	for _, m := range o.msgs {
		v.Msgs = append(v.Msgs, prog.ObsRes(m))
	}
	return v
}

type switchClient struct{ cur *memnet.Script }

func (s *switchClient) Do(r *http.Request) (*http.Response, error) { return s.cur.Do(r) }

func checkRetained(tt *testing.T, c RetainedCase) (pbt.Info, error) {
	var info pbt.Info
	info.Label("proto:" + c.Protocol)
	info.Label("kind:" + c.Kind)
	sw := &switchClient{}
	cfg := prog.Config{Protocol: c.Protocol, Codec: "proto", Kind: c.Kind}
	cl := connect.NewClient[pingv1.PingRequest, pingv1.PingResponse](sw, prog.BaseURL+prog.Procedure(c.Kind), cfg.ClientOptions()...)
	var objs []*retainedObj
	var first []retainedView
	failures := 0
	berr := pbt.Bubble(tt, func() error {
		for i, shape := range c.Shapes {
			sw.cur = scripted(c, i, shape)
			o := &retainedObj{}
			ctx := context.Background()
			if c.Kind == prog.Unary {
				res, err := cl.CallUnary(ctx, connect.NewRequest(&pingv1.PingRequest{Number: int64(i)}))
				o.err = err
				if res != nil {
					o.header, o.trailer, o.msgs = res.Header(), res.Trailer(), []*pingv1.PingResponse{res.Msg}
				}
			} else {
				st, err := cl.CallServerStream(ctx, connect.NewRequest(&pingv1.PingRequest{Number: int64(i)}))
				o.err = err
				if st != nil {
					for st.Receive() {
						o.msgs = append(o.msgs, st.Msg())
					}
					o.err = st.Err()
					o.header, o.trailer = st.ResponseHeader(), st.ResponseTrailer()
					_ = st.Close()
				}
			}
			sw.cur.WaitRequest()
			if o.err != nil {
				failures++
			}
			objs = append(objs, o)
			first = append(first, o.view())
		}
		return nil
	})
	if berr != nil {
		return info, berr
	}
	info.NonTrivial = failures >= 2
	for i, o := range objs {
		now := o.view()
		if !reflect.DeepEqual(now, first[i]) {
			return info, fmt.Errorf("%s %s client, responses %v: what call %d (%s) handed to the application changed after later calls ran:\n right after the call: err=%v meta=%v header=%v trailer=%v msgs=%v\n now:                  err=%v meta=%v header=%v trailer=%v msgs=%v",
				c.Protocol, c.Kind, c.Shapes, i, c.Shapes[i], first[i].Err, metaOf(first[i].Err), first[i].Header, first[i].Trailer, first[i].Msgs, now.Err, metaOf(now.Err), now.Header, now.Trailer, now.Msgs)
		}
		// and it is this call's own
		tag := fmt.Sprintf("call-%d", i)
		if now.Err != nil && now.Err.IsConnect {
			if got := now.Err.Meta.Values("X-Call"); len(got) > 0 && got[0] != tag {
				return info, fmt.Errorf("%s %s client, responses %v: the error of call %d carries X-Call=%q", c.Protocol, c.Kind, c.Shapes, i, got)
			}
		}
		if got := now.Header.Values("X-Call"); len(got) > 0 && got[0] != tag {
			return info, fmt.Errorf("%s %s client, responses %v: the response headers of call %d carry X-Call=%q", c.Protocol, c.Kind, c.Shapes, i, got)
		}
	}
	return info, nil
}

func metaOf(v *prog.ErrView) http.Header {
	if v == nil {
		return nil
	}
	return v.Meta
}

var specRetained = pbt.Spec[RetainedCase]{
	Prop: "C13", Name: "retained-values",
	Gen: func(t *rapid.T) RetainedCase {
		return RetainedCase{
			Protocol: rapid.SampledFrom(prog.Protocols).Draw(t, "protocol"),
			Kind:     rapid.SampledFrom([]string{prog.Unary, prog.Server}).Draw(t, "kind"),
			Shapes:   rapid.SliceOfN(rapid.SampledFrom(retainedShapes), 2, 6).Draw(t, "shapes"),
		}
	},
	Check: checkRetained,
	Rule:  "2..6 consecutive calls through ONE client against scripted responses (valid, explicit status error, stream without terminator, HTTP 503 page, undecodable payload, trailers-only error), each tagged with its call number in headers/trailers; every error, header map, trailer map and message the application was handed is kept and compared with its own snapshot after all later calls have run, and must carry its own call's tag; non-trivial = at least two failing calls",
}

func TestRetained(t *testing.T) { pbt.Run(t, specRetained) }
