package c04

import (
	"context"
	"errors"
	"fmt"
	"io"
	"net/http"
	"net/url"
	"sort"
	"testing"

	"github.com/bufbuild/connect-go/verif/bodies"
	"github.com/bufbuild/connect-go/verif/memnet"
	"github.com/bufbuild/connect-go/verif/pbt"
	"github.com/bufbuild/connect-go/verif/prog"
	"github.com/bufbuild/connect-go/verif/refwire"
	"pgregory.net/rapid"
)

// Case: one valid body, one way of ending the truncated stream; the check
// enumerates the cut offsets.
type Case struct {
	Dir      string      `json:"dir"` // response | request | hwrite | cwrite
	Body     bodies.Spec `json:"body"`
	Ending   string      `json:"ending"`            // eof | unexpected | opaque | rst
	Trailers string      `json:"trailers"`          // natural | always | never (HTTP trailers of a gRPC response)
	Offsets  []int       `json:"offsets,omitempty"` // nil: enumerate
}

type opaqueErr struct{}

func (opaqueErr) Error() string { return "read tcp 10.0.0.1:443: connection reset by peer" }

func endErr(kind string) error {
	switch kind {
	case "unexpected":
		return io.ErrUnexpectedEOF
	case "opaque":
		return opaqueErr{}
	case "rst":
		return errors.New("stream error: stream ID 3; INTERNAL_ERROR; received from peer")
	case "rst-noerror":
		// what net/http's HTTP/2 transport reports when the server resets the
		// stream with NO_ERROR before the body is complete
		return errors.New("stream error: stream ID 5; NO_ERROR; received from peer")
	}
	return nil
}

func offsets(c Case, n int, bounds map[int]bool) []int {
	if c.Offsets != nil {
		return c.Offsets
	}
	limit := 400
	if pbt.Thorough() {
		limit = 8192
	}
	if n <= limit {
		out := make([]int, 0, n+1)
		for i := 0; i <= n; i++ {
			out = append(out, i)
		}
		return out
	}
	set := map[int]bool{}
	for b := range bounds {
		for d := -2; d <= 2; d++ {
			if b+d >= 0 && b+d <= n {
				set[b+d] = true
			}
		}
	}
	x := uint32(n)*2654435761 + 17
	for i := 0; i < 64; i++ {
		x = x*1664525 + 1013904223
		set[int(x>>8)%(n+1)] = true
	}
	out := make([]int, 0, len(set))
	for k := range set {
		out = append(out, k)
	}
	sort.Ints(out)
	return out
}

func codedNonZero(v *prog.ErrView) error {
	if v == nil {
		return nil
	}
	if !v.IsConnect {
		return fmt.Errorf("error is not a *connect.Error: %s", v)
	}
	if v.Code == 0 {
		return fmt.Errorf("error has the zero (OK) code: %s", v)
	}
	return nil
}

func allErrorsCoded(res *prog.CResult) error {
	if err := codedNonZero(res.Err); err != nil {
		return err
	}
	if err := codedNonZero(res.CloseErr); err != nil {
		return fmt.Errorf("close: %w", err)
	}
	for _, e := range res.SendErrs {
		if err := codedNonZero(e); err != nil {
			return fmt.Errorf("send: %w", err)
		}
	}
	for _, o := range res.Ops {
		if err := codedNonZero(o.Err); err != nil {
			return fmt.Errorf("%s: %w", o.Op, err)
		}
	}
	return nil
}

func isPrefix(got []prog.Obs, sent []prog.Msg) bool {
	if len(got) > len(sent) {
		return false
	}
	for i := range got {
		if !got[i].Equal(sent[i]) {
			return false
		}
	}
	return true
}

func runClient(tt *testing.T, b bodies.Spec, sc *memnet.Script) (*prog.CResult, error) {
	var res *prog.CResult
	err := pbt.Bubble(tt, func() error {
		cfg := prog.Config{Protocol: b.Protocol, Codec: b.Codec, Kind: b.Kind, CAccept: []string{"deflate", "zlib", "toy"}}
		cp := &prog.ClientProg{Msgs: []prog.Msg{{N: 1}}}
		if b.Kind == prog.Bidi {
			cp.Ops = []prog.COp{{Op: "send", Msg: &prog.Msg{N: 1}}, {Op: "closereq"}, {Op: "recvall"}, {Op: "closeresp"}}
		}
		ctx, cancel := context.WithCancel(context.Background())
		defer cancel()
		res = prog.RunClient(ctx, sc, cfg, cp, cancel)
		sc.WaitRequest()
		return nil
	})
	return res, err
}

func checkResponse(tt *testing.T, c Case, info *pbt.Info) error {
	b := c.Body
	resp, err := b.Response()
	if err != nil {
		return nil
	}
	full := resp.Body
	enveloped := !(b.Protocol == "connect" && b.Kind == prog.Unary)
	_, bounds := bodies.FrameBounds(full, enveloped)
	n := len(full)
	for _, k := range offsets(c, n, bounds) {
		if k > n {
			continue
		}
		trailer := http.Header{}
		foreign := false
		switch c.Trailers {
		case "always":
			if c.Ending == "eof" {
				trailer = resp.Trailer
			}
		case "never":
		case "with-error":
			// the HTTP trailers arrive although the body failed (e.g. a declared
			// length that the data never reached): they do not repair the body
			trailer = resp.Trailer
		case "foreign-ok":
			// HTTP trailers claiming success on a protocol whose terminator
			// lives in the body (gRPC-Web, Connect): they are not the
			// protocol's end-of-stream marker and must not be taken for it
			if b.Protocol != "grpc" && c.Ending == "eof" {
				trailer = http.Header{"Grpc-Status": {"0"}}
				foreign = true
			} else if k == n && c.Ending == "eof" {
				trailer = resp.Trailer
			}
		default:
			if k == n && c.Ending == "eof" {
				trailer = resp.Trailer
			}
		}
		cut := &refwire.Response{Status: resp.Status, Header: resp.Header, Body: full[:k], Trailer: trailer}
		if foreign {
			cut.Trailer = http.Header{} // the reference decides completeness from the protocol's own terminator
			info.Label("foreign-http-trailers")
		}
		dec, derr := refwire.DecodeResponse(b.Protocol, b.Kind, b.ContentType(), cut)
		complete := derr == nil
		body := &memnet.ChunkReader{Data: full[:k], EndErr: endErr(c.Ending)}
		sc := memnet.NewScript(resp.Status, resp.Header, body, trailer)
		res, berr := runClient(tt, b, sc)
		pbt.Count("C04", "cuts", "deliveries", 1)
		where := fmt.Sprintf("%s %s %s response (%d bytes) cut at %d, ending %s, trailers %s", b.Protocol, b.Kind, b.Codec, n, k, c.Ending, c.Trailers)
		if berr != nil {
			return fmt.Errorf("%s: %v", where, berr)
		}
		if k > 0 && k < n {
			info.NonTrivial = true
			if !bounds[k] {
				info.Label("cut-mid-frame")
			} else {
				info.Label("cut-at-frame-boundary")
			}
		}
		if err := allErrorsCoded(res); err != nil {
			return fmt.Errorf("%s: %v", where, err)
		}
		succeeded := res.CleanEnd && res.Err == nil
		if res.CleanEnd && res.Err != nil {
			return fmt.Errorf("%s: call reported both a clean end and an error %v", where, res.Err)
		}
		// (k == 0: an empty body is read as the zero message without consulting
		// the decompressor — a different complete body again)
		compressedUnary := !enveloped && b.Encoding != "" && len(b.Compress) > 0 && b.Compress[0] && resp.Status == 200 && k > 0
		if !enveloped && c.Ending == "eof" && k < n && !compressedUnary {
			// unary Connect: a shorter body with a clean EOF is a different
			// complete body; not asserted (DESIGN §5 C04). A COMPRESSED body
			// is another matter: the compression format marks its own end, so
			// a cut is not a complete body and must not be taken for one.
			continue
		}
		if compressedUnary && k < n {
			info.Label("compressed-unary-body-cut")
		}
		if !isPrefix(res.Received, b.Msgs) {
			return fmt.Errorf("%s: delivered messages %v are not a prefix of the %d sent", where, res.Received, len(b.Msgs))
		}
		single := b.Kind == prog.Unary || b.Kind == prog.Client
		if complete && dec.Status.Code == 0 && single && len(dec.Messages) != 1 {
			complete = false // framing-complete but not a valid unary response
		}
		switch {
		case complete && c.Ending == "eof":
			if dec.Status.Code == 0 {
				if !succeeded && foreign {
					continue // whether stray HTTP trailers are tolerated is not part of the property
				}
				if !succeeded {
					return fmt.Errorf("%s: the complete terminator arrived (reference decode OK, %d messages) but the call failed: %v", where, len(dec.Messages), res.Err)
				}
				if len(res.Received) != len(dec.Messages) {
					return fmt.Errorf("%s: reference decoded %d messages, client delivered %d", where, len(dec.Messages), len(res.Received))
				}
			} else {
				if succeeded {
					return fmt.Errorf("%s: terminator carries error code %d but the call succeeded", where, dec.Status.Code)
				}
				if res.Err == nil || res.Err.Code != dec.Status.Code {
					return fmt.Errorf("%s: terminator carries error code %d, client reported %v", where, dec.Status.Code, res.Err)
				}
			}
		case complete:
			// terminator bytes all arrived, then the transport failed: either outcome is fine
			if succeeded && dec.Status.Code != 0 {
				return fmt.Errorf("%s: terminator carries error code %d but the call succeeded", where, dec.Status.Code)
			}
		default:
			if succeeded {
				return fmt.Errorf("%s: call reported success although the terminator never arrived (reference: %v); delivered %d of %d messages", where, derr, len(res.Received), len(b.Msgs))
			}
			if res.Err == nil {
				return fmt.Errorf("%s: call ended without error and without clean end", where)
			}
		}
	}
	return nil
}

func checkRequest(tt *testing.T, c Case, info *pbt.Info) error {
	b := c.Body
	req := b.Request()
	full := req.Body
	enveloped := !(b.Protocol == "connect" && b.Kind == prog.Unary)
	_, bounds := bodies.FrameBounds(full, enveloped)
	n := len(full)
	for _, k := range offsets(c, n, bounds) {
		if k > n {
			continue
		}
		log := &prog.HLog{}
		hp := &prog.HandlerProg{Drain: true, Resp: &prog.Msg{N: 7}}
		h := prog.NewHandler(b.Kind, hp, log, prog.Config{HComp: []string{"deflate", "zlib", "toy"}}.HandlerOptions()...)
		body := &memnet.ChunkReader{Data: full[:k], EndErr: endErr(c.Ending)}
		var rec *memnet.Recorded
		berr := pbt.Bubble(tt, func() error {
			rec = memnet.Serve(h, "POST", prog.Procedure(b.Kind), req.Header, body, memnet.ServeOpts{})
			return nil
		})
		pbt.Count("C04", "cuts", "deliveries", 1)
		where := fmt.Sprintf("%s %s %s request (%d bytes) cut at %d, ending %s", b.Protocol, b.Kind, b.Codec, n, k, c.Ending)
		if berr != nil {
			return fmt.Errorf("%s: %v", where, berr)
		}
		if rec.Panicked {
			return fmt.Errorf("%s: ServeHTTP panicked: %v", where, rec.PanicValue)
		}
		midFrame := enveloped && !bounds[k]
		if k > 0 && k < n {
			info.NonTrivial = true
			if midFrame {
				info.Label("req-cut-mid-frame")
			} else {
				info.Label("req-cut-at-frame-boundary")
			}
		}
		calls := log.Snapshot()
		if len(calls) > 1 {
			return fmt.Errorf("%s: user code ran %d times", where, len(calls))
		}
		failedBody := c.Ending != "eof" || midFrame
		if len(calls) == 0 {
			continue
		}
		hc := calls[0]
		if !enveloped && c.Ending == "eof" {
			continue // different complete unary body: not asserted
		}
		if !isPrefix(hc.Received, b.Msgs) {
			return fmt.Errorf("%s: handler received %v, not a prefix of the %d sent", where, hc.Received, len(b.Msgs))
		}
		if failedBody && (b.Kind == prog.Client || b.Kind == prog.Bidi) {
			if hc.RecvEnd == "eof" {
				return fmt.Errorf("%s: handler saw a clean end of the request stream (io.EOF) although the body failed or stopped mid-message; received %d messages", where, len(hc.Received))
			}
		}
		if failedBody && !enveloped {
			return fmt.Errorf("%s: unary handler ran although the request body failed", where)
		}
		if hc.RecvErr != nil && hc.RecvEnd == "err" {
			if err := codedNonZero(hc.RecvErr); err != nil {
				return fmt.Errorf("%s: handler Receive: %v", where, err)
			}
		}
	}
	return nil
}

// checkHandlerWrite: the k-th ResponseWriter.Write fails, for every k.
func checkHandlerWrite(tt *testing.T, c Case, info *pbt.Info) error {
	b := c.Body
	if b.Kind != prog.Server && b.Kind != prog.Bidi {
		b.Kind = prog.Server
	}
	b.ErrCode = 0
	reqSpec := bodies.Spec{Protocol: b.Protocol, Kind: b.Kind, Codec: b.Codec, Msgs: []prog.Msg{{N: 1}}}
	req := reqSpec.Request()
	hp := &prog.HandlerProg{}
	if b.Kind == prog.Bidi {
		hp.Steps = append(hp.Steps, prog.HStep{Op: "recv", N: -1})
	}
	for i := range b.Msgs {
		hp.Steps = append(hp.Steps, prog.HStep{Op: "send", Msg: &b.Msgs[i]})
	}
	// find the number of writes without failure
	run := func(failAt int) (*memnet.Recorded, *prog.HCall, error) {
		log := &prog.HLog{}
		h := prog.NewHandler(b.Kind, hp, log)
		var rec *memnet.Recorded
		berr := pbt.Bubble(tt, func() error {
			rec = memnet.Serve(h, "POST", prog.Procedure(b.Kind), req.Header, &memnet.ChunkReader{Data: req.Body}, memnet.ServeOpts{FailWriteAt: failAt, FailErr: opaqueErr{}})
			return nil
		})
		calls := log.Snapshot()
		if len(calls) != 1 {
			return rec, nil, fmt.Errorf("handler ran %d times (%v)", len(calls), berr)
		}
		return rec, calls[0], berr
	}
	rec0, _, err := run(0)
	if err != nil {
		return err
	}
	for k := 1; k <= rec0.Writes; k++ {
		rec, hc, err := run(k)
		pbt.Count("C04", "cuts", "write_faults", 1)
		where := fmt.Sprintf("%s %s handler sending %d messages, write %d of %d fails", b.Protocol, b.Kind, len(b.Msgs), k, rec0.Writes)
		if err != nil {
			return fmt.Errorf("%s: %v", where, err)
		}
		if rec.Panicked {
			return fmt.Errorf("%s: ServeHTTP panicked: %v", where, rec.PanicValue)
		}
		info.NonTrivial = true
		info.Label("handler-write-fault")
		// every Send that returned nil must be completely on the wire
		frames, _ := refwire.ParseFrames(rec.Body)
		data := 0
		for _, f := range frames {
			if f.Flags&^refwire.FlagCompressed == 0 {
				data++
			}
		}
		if hc.Sent > data {
			return fmt.Errorf("%s: %d Sends returned nil but only %d complete message frames reached the wire", where, hc.Sent, data)
		}
		for _, e := range hc.SendErrs {
			if err := codedNonZero(e); err != nil {
				return fmt.Errorf("%s: Send error: %v", where, err)
			}
		}
	}
	return nil
}

// checkClientWrite: the transport stops reading the request body after k bytes.
func checkClientWrite(tt *testing.T, c Case, info *pbt.Info) error {
	b := c.Body
	if (b.Kind == prog.Unary || b.Kind == prog.Server) && len(b.Msgs) != 1 {
		b.Kind = prog.Client // typed single-request calls carry exactly one message
	}
	full := b.Request().Body
	n := len(full)
	_, bounds := bodies.FrameBounds(full, !(b.Protocol == "connect" && b.Kind == prog.Unary))
	for _, k := range offsets(c, n, bounds) {
		if k > n {
			continue
		}
		sc := memnet.NewScript(200, http.Header{"Content-Type": {b.ContentType()}}, nil, nil)
		sc.FailRequestAfter = k
		// how the transport reports the failure varies
		switch (k + len(b.Msgs)) % 7 {
		case 6:
			// net/http's "Post …: EOF" when the server drops the connection
			sc.DoErr = &url.Error{Op: "Post", URL: "http://mem.test/x", Err: io.EOF}
		case 0:
			sc.DoErr = opaqueErr{}
		case 1:
			sc.DoErr = &url.Error{Op: "Post", URL: "http://mem.test/x", Err: io.ErrUnexpectedEOF}
		case 2:
			sc.DoErr = &url.Error{Op: "Post", URL: "http://mem.test/x", Err: errors.New("stream error: stream ID 7; REFUSED_STREAM; received from peer")}
		case 3:
			sc.DoErr = errors.New("stream error: stream ID 9; ENHANCE_YOUR_CALM; received from peer")
		case 4:
			sc.DoErr = &url.Error{Op: "Post", URL: "http://mem.test/x", Err: errors.New("net/http: HTTP/1.x transport connection broken: malformed HTTP response \"\\x00\\x00\"")}
		default:
			sc.DoErr = &url.Error{Op: "Post", URL: "http://mem.test/x", Err: errors.New("http2: Transport: cannot retry err [http2: Transport received Server's graceful shutdown GOAWAY] after Request.Body was written; define Request.GetBody to avoid this error")}
		}
		var res *prog.CResult
		berr := pbt.Bubble(tt, func() error {
			cfg := prog.Config{Protocol: b.Protocol, Codec: b.Codec, Kind: b.Kind}
			cp := &prog.ClientProg{Msgs: b.Msgs}
			if b.Kind == prog.Bidi {
				for i := range b.Msgs {
					cp.Ops = append(cp.Ops, prog.COp{Op: "send", Msg: &b.Msgs[i]})
				}
				cp.Ops = append(cp.Ops, prog.COp{Op: "closereq"}, prog.COp{Op: "recvall"}, prog.COp{Op: "closeresp"})
			}
			ctx, cancel := context.WithCancel(context.Background())
			defer cancel()
			res = prog.RunClient(ctx, sc, cfg, cp, cancel)
			sc.WaitRequest()
			return nil
		})
		pbt.Count("C04", "cuts", "client_write_faults", 1)
		where := fmt.Sprintf("%s %s client sending %d messages (%d bytes), transport fails after %d request bytes", b.Protocol, b.Kind, len(b.Msgs), n, k)
		if berr != nil {
			return fmt.Errorf("%s: %v", where, berr)
		}
		info.NonTrivial = true
		info.Label("client-write-fault")
		if err := allErrorsCoded(res); err != nil {
			return fmt.Errorf("%s: %v", where, err)
		}
		if res.CleanEnd && res.Err == nil {
			return fmt.Errorf("%s: call reported success although the transport failed", where)
		}
		for _, e := range res.SendErrs {
			if !e.WrapsEOF {
				return fmt.Errorf("%s: Send failed with %v, which does not wrap io.EOF", where, e)
			}
		}
	}
	return nil
}

func check(tt *testing.T, c Case) (pbt.Info, error) {
	var info pbt.Info
	info.Label("dir:" + c.Dir)
	info.Label("ending:" + c.Ending)
	info.Label("proto:" + c.Body.Protocol)
	var err error
	switch c.Dir {
	case "response":
		err = checkResponse(tt, c, &info)
	case "request":
		err = checkRequest(tt, c, &info)
	case "hwrite":
		err = checkHandlerWrite(tt, c, &info)
	case "cwrite":
		err = checkClientWrite(tt, c, &info)
	}
	return info, err
}

func gen(t *rapid.T) Case {
	c := Case{Dir: rapid.SampledFrom([]string{"response", "response", "request", "request", "hwrite", "cwrite"}).Draw(t, "dir")}
	d := c.Dir
	switch d {
	case "hwrite":
		d = "response"
	case "cwrite":
		d = "request"
	}
	sizes := []int{0, 1, 3, 20, 120}
	if pbt.Thorough() {
		sizes = append(sizes, 600, 3000)
	}
	c.Body = bodies.Gen(t, d, sizes)
	c.Ending = rapid.SampledFrom([]string{"eof", "eof", "unexpected", "opaque", "rst", "rst-noerror"}).Draw(t, "ending")
	c.Trailers = rapid.SampledFrom([]string{"natural", "natural", "always", "never", "foreign-ok", "with-error"}).Draw(t, "trailers")
	if c.Dir == "hwrite" && len(c.Body.Msgs) == 0 {
		c.Body.Msgs = []prog.Msg{{N: 3, TLen: 10}}
		c.Body.Compress = []bool{false}
	}
	return c
}

var spec = pbt.Spec[Case]{
	Prop: "C04", Name: "cuts",
	Gen: gen, Check: check,
	Rule: "rapid generates a valid body (reference encoder; all protocols × kinds × codecs × compression) and an ending {clean EOF, unexpected EOF, opaque transport error, RST_STREAM-shaped error} × HTTP-trailer mode; the check then ENUMERATES every cut offset 0..len (bodies ≤400 B quick / ≤8 KiB thorough; longer: all frame boundaries ±2 and 64 further offsets), every failing write index k for handler responses and every offset at which the transport stops reading a client's request. Oracle: differential against the strict reference decoder (success only if the terminator arrived), coded non-zero errors, delivered messages are a prefix, no hang (synctest bubble) or panic, handler never sees io.EOF after a failed / mid-message body. Non-trivial = at least one cut strictly inside the body or a write fault; counters give the number of enumerated deliveries.",
}

func TestCuts(t *testing.T) { pbt.Run(t, spec) }

func TestReplay(t *testing.T) { pbt.ReplayMain(t, pbt.Replayer(spec)) }
