package c07

import (
	"bytes"
	"encoding/binary"
	"fmt"
	"net/http"
	"strings"
	"testing"

	"github.com/bufbuild/connect-go/verif/comp"
	"github.com/bufbuild/connect-go/verif/memnet"
	"github.com/bufbuild/connect-go/verif/pbt"
	"github.com/bufbuild/connect-go/verif/prog"
	"github.com/bufbuild/connect-go/verif/refwire"
	"pgregory.net/rapid"
)

// Case is a raw request plus what the generator did to it.
type Case struct {
	Protocol   string     `json:"protocol"`
	Codec      string     `json:"codec"`
	Kind       string     `json:"kind"`
	Fault      string     `json:"fault"`
	Method     string     `json:"method"`
	ProtoMajor int        `json:"proto_major"`
	Header     []prog.KV  `json:"header"`
	Body       []byte     `json:"body"`
	ReadMax    int        `json:"read_max"`
	Sent       []prog.Msg `json:"sent"`   // messages in the valid request this was derived from
	Intact     int        `json:"intact"` // how many leading messages are still intact and deliverable
}

func hdr(list []prog.KV) http.Header {
	h := http.Header{}
	for _, kv := range list {
		h[kv.K] = append(h[kv.K], kv.V)
	}
	return h
}

func setKV(list []prog.KV, k, v string) []prog.KV {
	var out []prog.KV
	for _, kv := range list {
		if !strings.EqualFold(kv.K, k) {
			out = append(out, kv)
		}
	}
	return append(out, prog.KV{K: k, V: v})
}

func encHeader(protocol, kind string) string {
	if protocol == "connect" {
		if kind == prog.Unary {
			return "Content-Encoding"
		}
		return "Connect-Content-Encoding"
	}
	return "Grpc-Encoding"
}

func timeoutHeader(protocol string) string {
	if protocol == "connect" {
		return "Connect-Timeout-Ms"
	}
	return "Grpc-Timeout"
}

// expected error codes per fault class (documented set)
var expected = map[string][]uint32{
	"flags":        {3, 13},
	"truncate":     {3},
	"lyinglen":     {3},
	"unknowncomp":  {12},
	"compnoheader": {3, 13},
	"corruptcomp":  {3},
	"undecodable":  {3},
	"timeout":      {3},
	"oversize":     {3, 8},
	// an enveloped single-request call (unary, server stream) without any
	// envelope: there is no message, so user code must not be handed one
	"nomessage": {2, 3, 12, 13},
}

func check(tt *testing.T, c Case) (pbt.Info, error) {
	var info pbt.Info
	info.Label("proto:" + c.Protocol)
	info.Label("kind:" + c.Kind)
	info.Label("fault:" + c.Fault)
	info.NonTrivial = c.Fault != "none" && len(c.Body) > 0
	log := &prog.HLog{}
	hp := &prog.HandlerProg{Drain: true, Resp: &prog.Msg{N: 1}, PropagateRecvErr: true}
	if c.Kind == prog.Server || c.Kind == prog.Bidi {
		hp.Steps = []prog.HStep{{Op: "recv", N: -1}, {Op: "send", Msg: &prog.Msg{N: 2, TLen: 10}}}
	}
	cfg := prog.Config{HComp: []string{"deflate"}, HReadMax: c.ReadMax}
	h := prog.NewHandler(c.Kind, hp, log, cfg.HandlerOptions()...)
	var rec *memnet.Recorded
	berr := pbt.Bubble(tt, func() error {
		rec = memnet.Serve(h, c.Method, prog.Procedure(c.Kind), hdr(c.Header), bytes.NewReader(c.Body), memnet.ServeOpts{ProtoMajor: c.ProtoMajor, HaveContentLength: len(c.Body)%2 == 1, ContentLength: int64(len(c.Body))})
		return nil
	})
	where := fmt.Sprintf("%s handler, fault %q, %s HTTP/%d headers %v, %d body bytes %q", c.Kind, c.Fault, c.Method, c.ProtoMajor, c.Header, len(c.Body), trunc(c.Body, 60))
	if berr != nil {
		return info, fmt.Errorf("%s: %v", where, berr)
	}
	if rec.Panicked {
		return info, fmt.Errorf("%s: ServeHTTP panicked: %v", where, rec.PanicValue)
	}
	calls := log.Snapshot()
	if len(calls) > 1 {
		return info, fmt.Errorf("%s: user code ran %d times", where, len(calls))
	}
	// which protocol did the Content-Type select?
	ct := hdr(c.Header).Get("Content-Type")
	protocol := ""
	switch {
	case c.Method != "POST" || (c.Kind == prog.Bidi && c.ProtoMajor < 2):
	case ct == "application/grpc" || ct == "application/grpc+proto" || ct == "application/grpc+json":
		protocol = "grpc"
	case ct == "application/grpc-web" || ct == "application/grpc-web+proto" || ct == "application/grpc-web+json":
		protocol = "grpcweb"
	case c.Kind == prog.Unary && (ct == "application/proto" || ct == "application/json"):
		protocol = "connect"
	case c.Kind != prog.Unary && (ct == "application/connect+proto" || ct == "application/connect+json"):
		protocol = "connect"
	}
	if rec.Status == 405 || rec.Status == 415 || rec.Status == 505 {
		if len(rec.Body) != 0 || len(calls) != 0 {
			return info, fmt.Errorf("%s: %d response is not bare (body %q) or user code ran", where, rec.Status, rec.Body)
		}
		if protocol != "" && c.Fault != "random" {
			return info, fmt.Errorf("%s: request selects %s but got a bare %d", where, protocol, rec.Status)
		}
		return info, nil
	}
	if protocol == "" && c.Fault == "ctvariant" {
		// not an advertised spelling: if the handler chooses to serve it anyway the
		// answer must still be a well-formed response of the request's protocol
		raw := &refwire.Response{Status: rec.Status, Header: rec.Header, Body: rec.Body, Trailer: rec.Trailer}
		if _, derr := refwire.DecodeResponse(c.Protocol, c.Kind, ct, raw); derr != nil {
			return info, fmt.Errorf("%s: neither a bare 415 nor a well-formed %s response: %v", where, c.Protocol, derr)
		}
		return info, nil
	}
	if protocol == "" {
		if c.Fault == "random" {
			return info, nil // only safety is asserted for arbitrary requests whose type we did not model
		}
		return info, fmt.Errorf("%s: no protocol selected but response status %d", where, rec.Status)
	}
	raw := &refwire.Response{Status: rec.Status, Header: rec.Header, Body: rec.Body, Trailer: rec.Trailer}
	dec, derr := refwire.DecodeResponse(protocol, c.Kind, ct, raw)
	if derr != nil {
		return info, fmt.Errorf("%s: response is not well-formed %s: %v (status %d, headers %v, body %q, trailers %v)", where, protocol, derr, rec.Status, rec.Header, trunc(rec.Body, 120), rec.Trailer)
	}
	// user code only ever sees messages that were sent and decoded
	if c.Fault != "random" && len(calls) == 1 {
		got := calls[0].Received
		if len(got) > c.Intact && c.Fault != "none" && c.Fault != "timeout" && c.Fault != "unknowncomp" {
			return info, fmt.Errorf("%s: user code received %d messages but only %d leading messages are intact: %v", where, len(got), c.Intact, got)
		}
		for i, g := range got {
			if i >= len(c.Sent) || !g.Equal(c.Sent[i]) {
				return info, fmt.Errorf("%s: user code received message %d = %v which was never sent intact", where, i, g)
			}
		}
	}
	if c.Fault == "none" {
		if dec.Status.Code != 0 {
			return info, fmt.Errorf("%s: valid request failed with code %d %q", where, dec.Status.Code, dec.Status.Message)
		}
		if len(calls) != 1 || len(calls[0].Received) != len(c.Sent) {
			return info, fmt.Errorf("%s: valid request: user code ran %d times", where, len(calls))
		}
		return info, nil
	}
	if want, ok := expected[c.Fault]; ok {
		if dec.Status.Code == 0 {
			return info, fmt.Errorf("%s: faulty request (%s) was answered with success", where, c.Fault)
		}
		okc := false
		for _, w := range want {
			if dec.Status.Code == w {
				okc = true
			}
		}
		if !okc {
			return info, fmt.Errorf("%s: fault %s answered with code %d (%q), documented codes %v", where, c.Fault, dec.Status.Code, dec.Status.Message, want)
		}
		if c.Fault == "nomessage" && len(calls) != 0 {
			return info, fmt.Errorf("%s: the request carried no message at all, yet user code ran (with %v)", where, calls[0].Received)
		}
		if (c.Fault == "unknowncomp" || c.Fault == "timeout") && len(calls) != 0 {
			return info, fmt.Errorf("%s: user code ran although the request was rejected up front", where)
		}
		if c.Fault == "unknowncomp" {
			for _, name := range []string{"gzip", "deflate"} {
				if !strings.Contains(dec.Status.Message, name) {
					return info, fmt.Errorf("%s: unimplemented message %q does not list %q", where, dec.Status.Message, name)
				}
			}
		}
	}
	return info, nil
}

func trunc(b []byte, n int) []byte {
	if len(b) > n {
		return b[:n]
	}
	return b
}

func kvs(h http.Header) []prog.KV {
	var out []prog.KV
	for _, k := range []string{"Content-Type", "Te", "Grpc-Encoding", "Content-Encoding", "Connect-Content-Encoding", "Grpc-Accept-Encoding", "Accept-Encoding", "Connect-Accept-Encoding", "Grpc-Timeout", "Connect-Timeout-Ms"} {
		for _, v := range h[k] {
			out = append(out, prog.KV{K: k, V: v})
		}
	}
	return out
}

var badTimeoutsGRPC = []string{"5", "S", "5s", "5x", "5 S", "1.5S", "abcS", "999999999S", "100000000n", "5SS", "+S", "10000000000S", "100000000H", "999999999999M", "123456789012345678901234567890n", "99999999999999999u"}
var badTimeoutsConnect = []string{"5S", "abc", "1.5", "1e3", "12345678901", "99999999999999999999", " 5", "5 ", "1,000", "10000000000", "123456789012345678901234567890"}

func gen(t *rapid.T) Case {
	c := Case{
		Protocol: rapid.SampledFrom(prog.Protocols).Draw(t, "protocol"),
		Codec:    rapid.SampledFrom(prog.Codecs).Draw(t, "codec"),
		Kind:     rapid.SampledFrom(prog.Kinds).Draw(t, "kind"),
		Method:   "POST", ProtoMajor: 2,
	}
	multi := c.Kind == prog.Client || c.Kind == prog.Bidi
	unframed := c.Protocol == "connect" && c.Kind == prog.Unary
	n := 1
	if multi {
		n = rapid.IntRange(1, 3).Draw(t, "n")
	}
	faults := []string{"none", "nomessage", "flags", "truncate", "lyinglen", "unknowncomp", "compnoheader", "corruptcomp", "undecodable", "timeout", "oversize", "random", "ctvariant"}
	c.Fault = rapid.SampledFrom(faults).Draw(t, "fault")
	zeroOK := c.Fault == "none" || c.Fault == "flags" || c.Fault == "lyinglen" || c.Fault == "timeout" || c.Fault == "ctvariant"
	encoding := rapid.SampledFrom([]string{"", "", "gzip", "deflate"}).Draw(t, "encoding")
	var msgs [][]byte
	var compress []bool
	for i := 0; i < n; i++ {
		m := prog.Msg{N: int64(i + 1), TLen: rapid.SampledFrom([]int{1, 8, 100}).Draw(t, "tlen"), TSeed: i}
		if zeroOK && c.Codec == "proto" && rapid.IntRange(0, 4).Draw(t, "zeroMsg") == 0 {
			m = prog.Msg{} // zero-valued: a zero-length envelope
		}
		c.Sent = append(c.Sent, m)
		msgs = append(msgs, refwire.EncodePing(c.Codec, m.N, m.Text()))
		compress = append(compress, encoding != "" && (unframed || rapid.Bool().Draw(t, "compress")))
	}
	build := func() *refwire.Request {
		return refwire.BuildRequest(&refwire.ReqSpec{Protocol: c.Protocol, Kind: c.Kind, Codec: c.Codec, Msgs: msgs, Encoding: encoding, CompressMsg: compress})
	}
	req := build()
	c.Header, c.Body = kvs(req.Header), req.Body
	// the fault is applied to message index k (all earlier ones stay intact)
	k := 0
	if multi {
		k = rapid.IntRange(0, n-1).Draw(t, "k")
	}
	c.Intact = k
	frameOffset := func(idx int) int {
		off := 0
		for i := 0; i < idx; i++ {
			off += 5 + int(binary.BigEndian.Uint32(c.Body[off+1:off+5]))
		}
		return off
	}
	switch c.Fault {
	case "none":
		c.Intact = n
	case "nomessage":
		if unframed || multi {
			c.Fault, c.Intact = "none", n
			break
		}
		c.Body, c.Intact = nil, 0
	case "flags":
		if unframed {
			c.Fault, c.Intact = "none", n
			break
		}
		if c.Protocol == "grpc" && rapid.IntRange(0, 2).Draw(t, "webTrailerFlag") == 0 {
			// a gRPC-Web trailer frame (0x80) inside a plain gRPC request,
			// carrying what would parse as a header block
			msgs[k] = []byte(rapid.SampledFrom([]string{"", "grpc-status: 0\r\n", "x-k: v\r\n"}).Draw(t, "trailerBlock"))
			compress[k] = false
			req = build()
			c.Header, c.Body = kvs(req.Header), append([]byte(nil), req.Body...)
			c.Body[frameOffset(k)] |= 0x80
			break
		}
		off := frameOffset(k)
		c.Body = append([]byte(nil), c.Body...)
		c.Body[off] |= byte(rapid.SampledFrom([]int{0x04, 0x08, 0x10, 0x20, 0x40}).Draw(t, "badflag"))
	case "truncate":
		if unframed {
			c.Fault, c.Intact = "none", n
			break
		}
		off := frameOffset(k)
		size := 5 + int(binary.BigEndian.Uint32(c.Body[off+1:off+5]))
		cut := off + rapid.IntRange(1, size-1).Draw(t, "cut")
		c.Body = append([]byte(nil), c.Body[:cut]...)
	case "lyinglen":
		if unframed {
			c.Fault, c.Intact = "none", n
			break
		}
		off := frameOffset(k)
		c.Body = append([]byte(nil), c.Body[:off+5+int(binary.BigEndian.Uint32(c.Body[off+1:off+5]))]...)
		decl := binary.BigEndian.Uint32(c.Body[off+1 : off+5])
		binary.BigEndian.PutUint32(c.Body[off+1:off+5], decl+uint32(rapid.IntRange(1, 5000).Draw(t, "extra")))
	case "unknowncomp":
		c.Header = setKV(c.Header, encHeader(c.Protocol, c.Kind), rapid.SampledFrom([]string{"br", "snappy", "zstd", "GZIP", "x"}).Draw(t, "badenc"))
		c.Intact = 0
	case "compnoheader":
		if unframed {
			c.Fault, c.Intact = "none", n
			break
		}
		if rapid.Bool().Draw(t, "reallyCompressed") {
			// message k really is compressed, only the header that would name
			// the algorithm is missing (while the client advertises it for
			// the response)
			encoding = rapid.SampledFrom([]string{"gzip", "deflate"}).Draw(t, "hiddenEnc")
			for i := range compress {
				compress[i] = i == k
			}
			req = build()
			var hdr []prog.KV
			for _, kv := range kvs(req.Header) {
				if !strings.EqualFold(kv.K, encHeader(c.Protocol, c.Kind)) {
					hdr = append(hdr, kv)
				}
			}
			acc := map[string]string{"connect": "Connect-Accept-Encoding"}[c.Protocol]
			if acc == "" {
				acc = "Grpc-Accept-Encoding"
			}
			c.Header, c.Body = setKV(hdr, acc, encoding), req.Body
			break
		}
		encoding = ""
		for i := range compress {
			compress[i] = false
		}
		req = build()
		c.Header, c.Body = kvs(req.Header), append([]byte(nil), req.Body...)
		c.Body[frameOffset(k)] |= refwire.FlagCompressed
	case "corruptcomp":
		if encoding == "" {
			encoding = "gzip"
		}
		for i := range compress {
			compress[i] = true
		}
		req = build()
		c.Header, c.Body = kvs(req.Header), append([]byte(nil), req.Body...)
		if unframed {
			for i := 0; i < 4 && i < len(c.Body); i++ {
				c.Body[i] ^= 0x5a
			}
		} else {
			off := frameOffset(k)
			for i := 0; i < 4; i++ {
				c.Body[off+5+i] ^= 0x5a
			}
		}
	case "undecodable":
		bad := []byte{0x0a, 0x05, 0x41} // field 1 length-delimited, declares 5 bytes, has 1
		if c.Codec == "json" {
			docs := []string{`{"number":`, `{"nope":1}`, `[1,2]`, `{"number":"x"}`, `nul`}
			if unframed {
				// an empty or blank body is not a JSON document (inside an
				// envelope the library reads a zero-length payload as the
				// zero message, which is its business)
				docs = append(docs, "", "", " ", "\n")
			}
			bad = []byte(rapid.SampledFrom(docs).Draw(t, "badjson"))
		}
		msgs[k] = bad
		compress[k] = compress[k] && encoding != ""
		req = build()
		c.Header, c.Body = kvs(req.Header), req.Body
	case "timeout":
		pool := badTimeoutsGRPC
		if c.Protocol == "connect" {
			pool = badTimeoutsConnect
		}
		c.Header = setKV(c.Header, timeoutHeader(c.Protocol), rapid.SampledFrom(pool).Draw(t, "badtimeout"))
		c.Intact = 0
	case "oversize":
		big := prog.Msg{N: 7, TLen: 4000, TSeed: 3}
		c.Sent[k] = big
		msgs[k] = refwire.EncodePing(c.Codec, big.N, big.Text())
		req = build()
		c.Header, c.Body = kvs(req.Header), append([]byte(nil), req.Body...)
		c.ReadMax = 1000
		if !unframed && rapid.Bool().Draw(t, "flagged") {
			// the oversized envelope also claims to be an end-of-stream /
			// trailer / unknown-flag frame: still above the limit
			c.Body[frameOffset(k)] |= byte(rapid.SampledFrom([]int{0x02, 0x80, 0x04, 0x40}).Draw(t, "oversizeFlag"))
		}
	case "ctvariant":
		// a spelling variant of a served Content-Type: parameters, case, blanks
		ct := hdr(c.Header).Get("Content-Type")
		switch rapid.IntRange(0, 6).Draw(t, "ctvar") {
		case 0:
			ct += "; charset=utf-8"
		case 1:
			ct += ";x=y"
		case 2:
			ct = strings.ToUpper(ct[:1]) + ct[1:]
		case 3:
			ct = strings.ToUpper(ct)
		case 4:
			ct = " " + ct
		case 5:
			ct += " "
		default:
			ct = strings.Replace(ct, "/", "/ ", 1)
		}
		c.Header = setKV(c.Header, "Content-Type", ct)
		c.Intact = n
	case "random":
		c.Method = rapid.SampledFrom([]string{"POST", "POST", "POST", "GET", "PUT"}).Draw(t, "method")
		c.ProtoMajor = rapid.SampledFrom([]int{1, 2, 2}).Draw(t, "major")
		switch rapid.IntRange(0, 2).Draw(t, "randclass") {
		case 0:
			c.Body = rapid.SliceOfN(rapid.Byte(), 0, 80).Draw(t, "body")
		case 1:
			c.Body = append([]byte(nil), c.Body...)
			nm := rapid.IntRange(1, 4).Draw(t, "nflips")
			for i := 0; i < nm && len(c.Body) > 0; i++ {
				c.Body[rapid.IntRange(0, len(c.Body)-1).Draw(t, "pos")] = byte(rapid.IntRange(0, 255).Draw(t, "val"))
			}
		default:
			c.Body = append(append([]byte(nil), c.Body...), c.Body...)
		}
		if rapid.Bool().Draw(t, "randhdr") {
			k := rapid.SampledFrom([]string{"Content-Type", "Grpc-Encoding", "Content-Encoding", "Connect-Content-Encoding", "Grpc-Timeout", "Connect-Timeout-Ms", "Grpc-Accept-Encoding", "Te"}).Draw(t, "hk")
			c.Header = setKV(c.Header, k, rapid.StringMatching(`[ -~]{0,12}`).Draw(t, "hv"))
		}
		c.Body = clamp(c.Body)
		c.Intact = n
	}
	return c
}

// clamp keeps declared envelope lengths within 1 MiB of what is present
// (see the same helper in the C06 check).
func clamp(body []byte) []byte {
	out := append([]byte(nil), body...)
	off := 0
	for off+5 <= len(out) {
		n := int(binary.BigEndian.Uint32(out[off+1 : off+5]))
		if n > len(out)-off-5+(1<<20) {
			binary.BigEndian.PutUint32(out[off+1:off+5], uint32(len(out)-off-5+(1<<20)))
			break
		}
		off += 5 + n
	}
	return out
}

var spec = pbt.Spec[Case]{
	Prop: "C07", Name: "hostile-requests", Gen: gen, Check: check,
	Rule: "valid reference requests (3 protocols × 2 codecs × 4 kinds × compression) with exactly one fault applied to message k: undefined envelope flag bits, truncation inside a frame, length prefix larger than the payload, unknown compression name, compressed flag without encoding header, corrupted compressed payload, payload undecodable for the codec, malformed timeout, message over the configured read limit; plus arbitrary requests (random bodies, byte overwrites, duplicated bodies, random protocol headers, other methods/versions). Served synchronously inside a bubble. Oracle: returns without panic; response strictly well-formed for the protocol selected by the Content-Type (independent reference decoder) or a bare 405/415/505; user code ≤ 1 run and only ever receives intact sent messages (a prefix before the faulty one); each fault class is answered with its documented code and never with success; non-trivial = a fault was applied and the body is non-empty",
}

func TestHostile(t *testing.T) { pbt.Run(t, spec) }
func TestReplay(t *testing.T)  { pbt.ReplayMain(t, pbt.Replayer(spec)) }

var _ = comp.Universe
