package c07

import (
	"testing"

	"github.com/bufbuild/connect-go/verif/fz"
	"github.com/bufbuild/connect-go/verif/pbt"
	"github.com/bufbuild/connect-go/verif/prog"
	"pgregory.net/rapid"
)

// Native coverage-guided fuzzing of the handlers against raw requests. The
// input is decoded into a Case with fault class "random" (arbitrary request:
// the oracle asserts safety, at most one user call, bare 405/415/505 and a
// well-formed response of the protocol the Content-Type selects).

var fzMethods = []string{"POST", "POST", "POST", "GET", "PUT"}

func decodeFuzz(sel uint8, hdr string, body []byte) (Case, bool) {
	c := Case{Fault: "random"}
	c.Protocol = prog.Protocols[int(sel)%3]
	c.Codec = prog.Codecs[int(sel/3)%2]
	c.Kind = prog.Kinds[int(sel/6)%4]
	c.ProtoMajor = 2 - int(sel/24)%2
	c.Method = fzMethods[int(sel/48)%len(fzMethods)]
	if len(body) > 1<<16 || len(hdr) > 1<<12 {
		return c, false
	}
	c.Header = fz.ParseFields(hdr)
	c.Body = clamp(body)
	return c, true
}

func encodeFuzz(c Case) (uint8, string, []byte) {
	sel := fz.Index(prog.Protocols, c.Protocol) + 3*fz.Index(prog.Codecs, c.Codec) + 6*fz.Index(prog.Kinds, c.Kind) + 24*(2-c.ProtoMajor) + 48*fz.Index(fzMethods, c.Method)
	return uint8(sel), fz.FieldsBlob(c.Header), c.Body
}

func FuzzHostile(f *testing.F) {
	g := rapid.Custom(gen)
	for i := 0; i < 1500; i++ {
		c := g.Example(i)
		if len(c.Body) > 4096 {
			continue
		}
		a, b, d := encodeFuzz(c)
		f.Add(a, b, d)
	}
	f.Fuzz(func(t *testing.T, sel uint8, hdr string, body []byte) {
		c, ok := decodeFuzz(sel, hdr, body)
		if !ok {
			t.Skip()
		}
		pbt.FuzzEval(t, spec, c)
	})
}
