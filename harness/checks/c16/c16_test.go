package c16

import (
	"context"
	"fmt"
	"strings"
	"sync"
	"testing"

	connect "github.com/bufbuild/connect-go"
	pingv1 "github.com/bufbuild/connect-go/internal/gen/connect/ping/v1"
	"github.com/bufbuild/connect-go/verif/memnet"
	"github.com/bufbuild/connect-go/verif/pbt"
	"github.com/bufbuild/connect-go/verif/prog"
	"pgregory.net/rapid"
)

// Node is one option value in the option tree.
type Node struct {
	Kind string `json:"kind"`           // ics | empty | other | opts | sideopts | ref
	Ref  int    `json:"ref,omitempty"`  // ref: the (Ref mod k)-th WithInterceptors value built so far is used here again
	Ics  []int  `json:"ics,omitempty"`  // ics: interceptor ids, -1 = nil entry
	Kids []Node `json:"kids,omitempty"` // opts (WithOptions) / sideopts (WithClientOptions or WithHandlerOptions)
}

type Case struct {
	Side     string `json:"side"` // client | handler
	Kind     string `json:"kind"`
	Protocol string `json:"protocol"`
	Tree     []Node `json:"tree"`
	// SharedBacking: all groups are sub-slices of one backing array.
	SharedBacking bool `json:"shared_backing,omitempty"`
	// Reuse: how many other clients/handlers the very same option values are
	// applied to first (generated service constructors pass one option list to
	// every procedure of the service).
	Reuse int `json:"reuse"`
	// ReuseFrom: the other clients/handlers get only the option values from
	// this top-level position on (the same values, preceded by fewer
	// interceptors than in the list under test).
	ReuseFrom int `json:"reuse_from,omitempty"`
	// Again: 1-based top-level position of an option value that appears a
	// second time at the end of the list (0: none); its interceptors then wrap
	// twice, as listed.
	Again int `json:"again,omitempty"`
}

type evlog struct {
	mu sync.Mutex
	ev []string
	// shared: every WithInterceptors group is a sub-slice list[a:b] of one
	// backing array (with spare capacity behind it), the way an application
	// that keeps all its interceptors in one slice would pass them
	shared bool
	arena  []connect.Interceptor
	built  []connect.Option // every WithInterceptors value built so far, in traversal order
}

func (l *evlog) add(s string) {
	l.mu.Lock()
	l.ev = append(l.ev, s)
	l.mu.Unlock()
}

type ic struct {
	id  int
	log *evlog
}

func (i *ic) WrapUnary(next connect.UnaryFunc) connect.UnaryFunc {
	return func(ctx context.Context, req connect.AnyRequest) (connect.AnyResponse, error) {
		i.log.add(fmt.Sprintf("req:%d", i.id))
		res, err := next(ctx, req)
		i.log.add(fmt.Sprintf("res:%d", i.id))
		return res, err
	}
}

type cconn struct {
	connect.StreamingClientConn
	i *ic
}

func (c *cconn) Send(m any) error {
	c.i.log.add(fmt.Sprintf("send:%d", c.i.id))
	return c.StreamingClientConn.Send(m)
}
func (c *cconn) Receive(m any) error {
	err := c.StreamingClientConn.Receive(m)
	c.i.log.add(fmt.Sprintf("recv:%d", c.i.id))
	return err
}

func (i *ic) WrapStreamingClient(next connect.StreamingClientFunc) connect.StreamingClientFunc {
	return func(ctx context.Context, spec connect.Spec) connect.StreamingClientConn {
		i.log.add(fmt.Sprintf("enter:%d", i.id))
		conn := next(ctx, spec)
		i.log.add(fmt.Sprintf("exit:%d", i.id))
		return &cconn{StreamingClientConn: conn, i: i}
	}
}

type hconn struct {
	connect.StreamingHandlerConn
	i *ic
}

func (c *hconn) Send(m any) error {
	c.i.log.add(fmt.Sprintf("send:%d", c.i.id))
	return c.StreamingHandlerConn.Send(m)
}
func (c *hconn) Receive(m any) error {
	err := c.StreamingHandlerConn.Receive(m)
	c.i.log.add(fmt.Sprintf("recv:%d", c.i.id))
	return err
}

func (i *ic) WrapStreamingHandler(next connect.StreamingHandlerFunc) connect.StreamingHandlerFunc {
	return func(ctx context.Context, conn connect.StreamingHandlerConn) error {
		i.log.add(fmt.Sprintf("enter:%d", i.id))
		err := next(ctx, &hconn{StreamingHandlerConn: conn, i: i})
		i.log.add(fmt.Sprintf("exit:%d", i.id))
		return err
	}
}

func icList(ids []int, log *evlog) []connect.Interceptor {
	if log.shared {
		start := len(log.arena)
		for _, id := range ids {
			if id < 0 {
				log.arena = append(log.arena, nil)
			} else {
				log.arena = append(log.arena, &ic{id: id, log: log})
			}
		}
		return log.arena[start:len(log.arena)] // capacity reaches to the end of the backing array
	}
	out := make([]connect.Interceptor, 0, len(ids))
	for _, id := range ids {
		if id < 0 {
			out = append(out, nil)
		} else {
			out = append(out, &ic{id: id, log: log})
		}
	}
	return out
}

func asOption(n Node, log *evlog) connect.Option {
	switch n.Kind {
	case "ics":
		o := connect.WithInterceptors(icList(n.Ics, log)...)
		log.built = append(log.built, o)
		return o
	case "ref":
		if len(log.built) == 0 {
			return connect.WithInterceptors()
		}
		return log.built[n.Ref%len(log.built)]
	case "empty":
		return connect.WithInterceptors()
	case "other":
		return connect.WithCompressMinBytes(0)
	case "opts":
		var kids []connect.Option
		for _, k := range n.Kids {
			kids = append(kids, asOption(k, log))
		}
		return connect.WithOptions(kids...)
	}
	panic("not an Option: " + n.Kind)
}

func clientOpts(nodes []Node, log *evlog) []connect.ClientOption {
	var out []connect.ClientOption
	for _, n := range nodes {
		if n.Kind == "sideopts" {
			out = append(out, connect.WithClientOptions(clientOpts(n.Kids, log)...))
		} else {
			out = append(out, asOption(n, log))
		}
	}
	return out
}

func handlerOpts(nodes []Node, log *evlog) []connect.HandlerOption {
	var out []connect.HandlerOption
	for _, n := range nodes {
		if n.Kind == "sideopts" {
			out = append(out, connect.WithHandlerOptions(handlerOpts(n.Kids, log)...))
		} else {
			out = append(out, asOption(n, log))
		}
	}
	return out
}

func flatten(nodes []Node) (ids []int, groups, nils, depth int) {
	var seen [][]int // ids of every ics node met so far, in traversal order
	var walk func(ns []Node, d int)
	walk = func(ns []Node, d int) {
		if d > depth {
			depth = d
		}
		for _, n := range ns {
			switch n.Kind {
			case "ics":
				groups++
				var own []int
				for _, id := range n.Ics {
					if id < 0 {
						nils++
					} else {
						ids = append(ids, id)
						own = append(own, id)
					}
				}
				seen = append(seen, own)
			case "ref":
				if len(seen) > 0 {
					groups++
					ids = append(ids, seen[n.Ref%len(seen)]...)
				}
			case "opts", "sideopts":
				walk(n.Kids, d+1)
			}
		}
	}
	walk(nodes, 0)
	return
}

func seq(prefix string, ids []int, reverse bool) []string {
	out := make([]string, 0, len(ids))
	for _, id := range ids {
		out = append(out, fmt.Sprintf("%s:%d", prefix, id))
	}
	if reverse {
		for i, j := 0, len(out)-1; i < j; i, j = i+1, j-1 {
			out[i], out[j] = out[j], out[i]
		}
	}
	return out
}

func filter(ev []string, prefix string) []string {
	var out []string
	for _, e := range ev {
		if strings.HasPrefix(e, prefix+":") {
			out = append(out, e)
		}
	}
	return out
}

func repeatSeq(s []string, n int) []string {
	var out []string
	for i := 0; i < n; i++ {
		out = append(out, s...)
	}
	return out
}

func eq(a, b []string) bool { return strings.Join(a, ",") == strings.Join(b, ",") }

func check(tt *testing.T, c Case) (pbt.Info, error) {
	var info pbt.Info
	ids, groups, nils, depth := flatten(c.Tree)
	info.Label("side:" + c.Side)
	info.Label("kind:" + c.Kind)
	info.NonTrivial = len(ids) >= 2 && (groups >= 2 || depth >= 1 || nils >= 1)
	if groups >= 2 {
		info.Label("multi-group")
	}
	if depth >= 1 {
		info.Label("nested")
	}
	if nils >= 1 {
		info.Label("nil-entries")
	}
	log := &evlog{shared: c.SharedBacking}
	if c.SharedBacking {
		info.Label("groups-share-one-backing-array")
		log.arena = make([]connect.Interceptor, 0, len(ids)+nils+3)
	}
	cfg := prog.Config{Protocol: c.Protocol, Codec: "proto", Kind: c.Kind}
	var hopts []connect.HandlerOption
	copts := cfg.ClientOptions()
	from := 0
	if c.ReuseFrom > 0 && c.ReuseFrom < len(c.Tree) && c.Reuse > 0 {
		from = c.ReuseFrom
		info.Label("option-values-reused-behind-a-shorter-prefix")
	}
	again := 0
	if c.Again >= 1 && c.Again <= len(c.Tree) {
		again = c.Again
		info.Label("option-value-listed-twice")
		// (the ids the again-th top-level option contributes, refs resolved
		// in the context of the whole tree)
		before, _, _, _ := flatten(c.Tree[:again-1])
		upto, _, _, _ := flatten(c.Tree[:again])
		ids = append(ids, upto[len(before):]...)
	}
	if c.Side == "client" {
		base := len(copts)
		copts = append(copts, clientOpts(c.Tree, log)...)
		if again > 0 {
			copts = append(copts, copts[base+again-1])
		}
		for i := 0; i < c.Reuse; i++ {
			other := append(append([]connect.ClientOption(nil), copts[:base]...), copts[base+from:]...)
			_ = connect.NewClient[pingv1.PingRequest, pingv1.PingResponse](&memnet.Mem{}, prog.BaseURL+fmt.Sprintf("/verif.v1.Svc/Other%d", i), other...)
		}
	} else {
		hopts = handlerOpts(c.Tree, log)
		if again > 0 {
			hopts = append(hopts, hopts[again-1])
		}
		for i := 0; i < c.Reuse; i++ {
			_ = prog.NewHandlerAt(fmt.Sprintf("/verif.v1.Svc/Other%d", i), c.Kind, &prog.HandlerProg{}, &prog.HLog{}, hopts[from:]...)
		}
	}
	if c.Reuse > 0 {
		info.Label("options-reused")
	}
	// handler: receive everything, send 2 messages (streaming) / 1 response
	hp := &prog.HandlerProg{Drain: true, Resp: &prog.Msg{N: 1}}
	if c.Kind == prog.Server || c.Kind == prog.Bidi {
		hp.Steps = []prog.HStep{{Op: "recv", N: -1}, {Op: "send", Msg: &prog.Msg{N: 1}}, {Op: "send", Msg: &prog.Msg{N: 2}}}
	}
	hlog := &prog.HLog{}
	h := prog.NewHandler(c.Kind, hp, hlog, hopts...)
	mem := &memnet.Mem{Handler: h}
	cl := connect.NewClient[pingv1.PingRequest, pingv1.PingResponse](mem, prog.BaseURL+prog.Procedure(c.Kind), copts...)
	cp := &prog.ClientProg{Msgs: []prog.Msg{{N: 1}, {N: 2}}}
	if c.Kind == prog.Bidi {
		cp.Ops = []prog.COp{{Op: "send", Msg: &prog.Msg{N: 1}}, {Op: "send", Msg: &prog.Msg{N: 2}}, {Op: "closereq"}, {Op: "recvall"}, {Op: "closeresp"}}
	}
	var res *prog.CResult
	if berr := pbt.Bubble(tt, func() error {
		ctx, cancel := context.WithCancel(context.Background())
		defer cancel()
		res = prog.RunClientWith(ctx, cl, c.Kind, cp, cancel)
		if ex := mem.Last(); ex != nil {
			<-ex.HandlerDone()
		}
		return nil
	}); berr != nil {
		return info, berr
	}
	if res.Err != nil {
		return info, fmt.Errorf("call failed: %v", res.Err)
	}
	log.mu.Lock()
	ev := append([]string(nil), log.ev...)
	log.mu.Unlock()
	where := fmt.Sprintf("%s %s %s, interceptors %v (declared order), log %v", c.Side, c.Kind, c.Protocol, ids, ev)
	if c.Kind == prog.Unary {
		if !eq(filter(ev, "req"), seq("req", ids, false)) {
			return info, fmt.Errorf("%s: requests must be seen in order %v", where, seq("req", ids, false))
		}
		if !eq(filter(ev, "res"), seq("res", ids, true)) {
			return info, fmt.Errorf("%s: responses must be seen in order %v", where, seq("res", ids, true))
		}
		return info, nil
	}
	if !eq(filter(ev, "enter"), seq("enter", ids, false)) {
		return info, fmt.Errorf("%s: each interceptor must wrap the call exactly once, outermost first: %v", where, seq("enter", ids, false))
	}
	if !eq(filter(ev, "exit"), seq("exit", ids, true)) {
		return info, fmt.Errorf("%s: wrap exits must be %v", where, seq("exit", ids, true))
	}
	// number of Send / Receive calls made by the user of the wrapped conn
	var sends, recvs int
	if c.Side == "client" {
		switch c.Kind {
		case prog.Client:
			sends, recvs = 2, 2 // CloseAndReceive: message + end
		case prog.Server:
			sends, recvs = 1, 3 // two messages + end
		case prog.Bidi:
			sends, recvs = 2, 3
		}
	} else {
		switch c.Kind {
		case prog.Client:
			sends, recvs = 1, 3 // two messages + EOF
		case prog.Server:
			sends, recvs = 2, 1
		case prog.Bidi:
			sends, recvs = 2, 3
		}
	}
	// The first interceptor is the first to see request-direction messages and
	// the last to see response-direction messages. On a client the request
	// direction is Send, on a handler it is Receive (the wrapped conn of the
	// first interceptor sits next to the network, as in the WithInterceptors
	// documentation diagram).
	sendRev, recvRev := false, true
	if c.Side == "handler" {
		sendRev, recvRev = true, false
	}
	if !eq(filter(ev, "send"), repeatSeq(seq("send", ids, sendRev), sends)) {
		return info, fmt.Errorf("%s: every Send must pass the interceptors in order %v (%d sends)", where, seq("send", ids, sendRev), sends)
	}
	if !eq(filter(ev, "recv"), repeatSeq(seq("recv", ids, recvRev), recvs)) {
		return info, fmt.Errorf("%s: every Receive must complete in order %v (%d receives)", where, seq("recv", ids, recvRev), recvs)
	}
	return info, nil
}

func nodeGen(t *rapid.T, next *int, depth int, optionOnly bool) Node {
	kinds := []string{"ics", "ics", "ics", "empty", "other", "ref"}
	if depth < 3 {
		kinds = append(kinds, "opts")
		if !optionOnly {
			kinds = append(kinds, "sideopts")
		}
	}
	n := Node{Kind: rapid.SampledFrom(kinds).Draw(t, "nodekind")}
	switch n.Kind {
	case "ics":
		k := rapid.IntRange(1, 3).Draw(t, "nics")
		for i := 0; i < k; i++ {
			if rapid.IntRange(0, 4).Draw(t, "nil") == 0 {
				n.Ics = append(n.Ics, -1)
			} else if *next < 6 {
				n.Ics = append(n.Ics, *next)
				*next++
			}
		}
	case "ref":
		n.Ref = rapid.IntRange(0, 5).Draw(t, "ref")
	case "opts", "sideopts":
		k := rapid.IntRange(0, 3).Draw(t, "nkids")
		for i := 0; i < k; i++ {
			n.Kids = append(n.Kids, nodeGen(t, next, depth+1, optionOnly || n.Kind == "opts"))
		}
	}
	return n
}

func gen(t *rapid.T) Case {
	c := Case{
		Side:     rapid.SampledFrom([]string{"client", "handler"}).Draw(t, "side"),
		Kind:     rapid.SampledFrom(prog.Kinds).Draw(t, "kind"),
		Protocol: rapid.SampledFrom(prog.Protocols).Draw(t, "protocol"),
		Reuse:    rapid.SampledFrom([]int{0, 0, 1, 2}).Draw(t, "reuse"),
	}
	c.SharedBacking = rapid.Bool().Draw(t, "sharedBacking")
	if c.Reuse > 0 {
		c.ReuseFrom = rapid.IntRange(0, 2).Draw(t, "reuseFrom")
	}
	if rapid.IntRange(0, 4).Draw(t, "again") == 0 {
		c.Again = rapid.IntRange(1, 4).Draw(t, "againAt")
	}
	next := 0
	k := rapid.IntRange(1, 4).Draw(t, "ntop")
	for i := 0; i < k; i++ {
		c.Tree = append(c.Tree, nodeGen(t, &next, 0, false))
	}
	return c
}

var spec = pbt.Spec[Case]{
	Prop: "C16", Name: "trees", Gen: gen, Check: check,
	Rule: "rapid-generated option trees: up to 6 labelled interceptors (nil entries anywhere) spread over WithInterceptors groups nested up to depth 3 inside WithOptions / WithClientOptions / WithHandlerOptions, interleaved with empty WithInterceptors() and unrelated options; the groups are either separate slices or sub-slices list[a:b] of one backing array with spare capacity; the same option values optionally applied to 1–2 other clients/handlers first (as generated constructors do), the whole list or only a suffix of it (so the shared values follow fewer interceptors there); optionally one option value listed a second time, and `ref` nodes that use an earlier WithInterceptors value again at another place of the tree; × {client, handler} × 4 RPC kinds × 3 protocols; oracle: reference model = flat concatenation minus nils, checked on an event log (request/Send order 1..m, response/Receive completion order m..1, each interceptor wraps once); non-trivial = ≥2 effective interceptors AND (≥2 groups OR nesting OR a nil entry)",
}

func TestTrees(t *testing.T) { pbt.Run(t, spec) }

// TestCompositions enumerates all compositions of n ≤ N interceptors into
// consecutive WithInterceptors groups × all nil masks.
func TestCompositions(t *testing.T) {
	defer pbt.Flush()
	maxN := 4
	if pbt.Thorough() {
		maxN = 6
	}
	total, nt := 0, 0
	var samples []any
	for n := 1; n <= maxN; n++ {
		for comp := 0; comp < 1<<(n-1); comp++ {
			for mask := 0; mask < 1<<n; mask++ {
				if n > 4 && mask != 0 && mask != 1<<(n/2) {
					continue // nil masks only exhaustively for n ≤ 4
				}
				var tree []Node
				cur := Node{Kind: "ics"}
				for i := 0; i < n; i++ {
					id := i
					if mask&(1<<i) != 0 {
						id = -1
					}
					cur.Ics = append(cur.Ics, id)
					if i == n-1 || comp&(1<<i) != 0 {
						tree = append(tree, cur)
						cur = Node{Kind: "ics"}
					}
				}
				for _, side := range []string{"client", "handler"} {
					for _, kind := range prog.Kinds {
						c := Case{Side: side, Kind: kind, Protocol: prog.Protocols[(n+comp+mask)%3], Tree: tree, Reuse: (comp + mask) % 3, SharedBacking: (comp+mask+n)%2 == 1}
						info, err := check(t, c)
						total++
						if info.NonTrivial {
							nt++
						}
						if err != nil {
							path := pbt.SaveReplay(spec, c, err)
							fmt.Printf("VIOLATION property=C16 replay=%s\n", path)
							t.Fatalf("C16/compositions violated: %v", err)
						}
						if len(samples) < 3 && info.NonTrivial && (comp+mask)%5 == 3 {
							samples = append(samples, c)
						}
					}
				}
			}
		}
	}
	pbt.RecordBulk("C16", "compositions", fmt.Sprintf("ALL 2^(n-1) compositions of n ≤ %d interceptors into consecutive WithInterceptors groups × nil masks (all for n ≤ 4) × {client, handler} × 4 kinds; non-trivial as in [trees]", maxN), total, nt, true, samples...)
}

func TestReplay(t *testing.T) { pbt.ReplayMain(t, pbt.Replayer(spec)) }
