package c19

import (
	"bytes"
	"context"
	"fmt"
	"net/http"
	"reflect"
	"strings"
	"sync"
	"testing"
	"time"

	connect "github.com/bufbuild/connect-go"
	pingv1 "github.com/bufbuild/connect-go/internal/gen/connect/ping/v1"
	"github.com/bufbuild/connect-go/verif/memnet"
	"github.com/bufbuild/connect-go/verif/pbt"
	"github.com/bufbuild/connect-go/verif/prog"
	"google.golang.org/protobuf/proto"
	"pgregory.net/rapid"
)

type Case struct {
	Cfg     prog.Config  `json:"cfg"`
	Panic   string       `json:"panic"`   // "" = control run without panic; otherwise a prog.PanicValue kind
	After   int          `json:"after"`   // streaming: number of receives (client/bidi) or sends (server/bidi) before the panic
	More    int          `json:"more"`    // sends scheduled after the panic point (never executed)
	Before  int          `json:"before"`  // pass-through interceptors declared before WithRecover
	Behind  int          `json:"behind"`  // pass-through interceptors declared after WithRecover
	Returns prog.ErrSpec `json:"returns"` // what the recovery function returns
	Warmups int          `json:"warmups"` // non-panicking calls through the SAME handler before the call under test
	// CtxDone: the handler waits until its context is done (the client's
	// deadline, propagated to the server, has passed) and panics only then.
	CtxDone bool `json:"ctx_done,omitempty"`
	// InInterceptor: the panic is raised not by the handler function but by an
	// interceptor declared AFTER WithRecover, i.e. nested inside it (Behind ≥ 1).
	InInterceptor bool `json:"in_interceptor,omitempty"`
	// InMarshal: the panic is raised inside conn.Send, by the handler's codec
	// while it marshals the response message after the After-th one
	// (streaming kinds with the binary codec only).
	InMarshal bool `json:"in_marshal,omitempty"`
	// Overlap: the handler pauses (1 s, virtual) right before it panics, and
	// meanwhile another, non-panicking call through the SAME handler starts and
	// returns normally.
	Overlap bool `json:"overlap,omitempty"`
}

const marshalTrap = 424242

// trapCodec is the binary codec, except that marshalling the trap message panics.
type trapCodec struct{ kind string }

func (trapCodec) Name() string { return "proto" }
func (c trapCodec) Marshal(m any) ([]byte, error) {
	if r, ok := m.(*pingv1.PingResponse); ok && r.GetNumber() == marshalTrap {
		prog.DefaultPanic(c.kind)
	}
	return proto.Marshal(m.(proto.Message))
}
func (trapCodec) Unmarshal(b []byte, m any) error { return proto.Unmarshal(b, m.(proto.Message)) }

// panicker is an interceptor that panics instead of calling on (warm-up calls
// pass through).
type panicker struct{ kind string }

func (p panicker) WrapUnary(next connect.UnaryFunc) connect.UnaryFunc {
	return func(ctx context.Context, req connect.AnyRequest) (connect.AnyResponse, error) {
		if req.Header().Get("X-Verif-No-Panic") == "" {
			prog.DefaultPanic(p.kind)
		}
		return next(ctx, req)
	}
}
func (p panicker) WrapStreamingClient(n connect.StreamingClientFunc) connect.StreamingClientFunc {
	return n
}
func (p panicker) WrapStreamingHandler(next connect.StreamingHandlerFunc) connect.StreamingHandlerFunc {
	return func(ctx context.Context, conn connect.StreamingHandlerConn) error {
		if conn.RequestHeader().Get("X-Verif-No-Panic") == "" {
			prog.DefaultPanic(p.kind)
		}
		return next(ctx, conn)
	}
}

type passthrough struct{ connect.Interceptor }

func (passthrough) WrapUnary(n connect.UnaryFunc) connect.UnaryFunc { return n }
func (passthrough) WrapStreamingClient(n connect.StreamingClientFunc) connect.StreamingClientFunc {
	return n
}
func (passthrough) WrapStreamingHandler(n connect.StreamingHandlerFunc) connect.StreamingHandlerFunc {
	return n
}

// goRecover is the differential reference: what the Go runtime itself hands
// to a plain deferred recover() for panic(v) in this very binary.
func goRecover(v any) (r any) {
	defer func() { r = recover() }()
	panic(v)
}

func sameValue(a, b any) bool {
	defer func() { _ = recover() }()
	if a == b {
		return true
	}
	return reflect.DeepEqual(a, b)
}

func handlerProg(c Case) (*prog.HandlerProg, []prog.Msg) {
	hp := &prog.HandlerProg{Resp: &prog.Msg{N: 9}}
	var sent []prog.Msg
	pstep := prog.HStep{Op: "panic", PV: c.Panic}
	switch c.Cfg.Kind {
	case prog.Unary:
	case prog.Client:
		hp.Steps = append(hp.Steps, prog.HStep{Op: "recv", N: c.After})
	case prog.Server, prog.Bidi:
		if c.Cfg.Kind == prog.Bidi {
			hp.Steps = append(hp.Steps, prog.HStep{Op: "recv", N: 1})
		}
		for i := 0; i < c.After; i++ {
			m := prog.Msg{N: int64(i + 1), TLen: 3 * i}
			sent = append(sent, m)
			hp.Steps = append(hp.Steps, prog.HStep{Op: "send", Msg: &sent[len(sent)-1]})
		}
	}
	// fix pointers (append may have moved the slice)
	j := 0
	for i := range hp.Steps {
		if hp.Steps[i].Op == "send" {
			hp.Steps[i].Msg = &sent[j]
			j++
		}
	}
	if c.Panic != "" && c.InMarshal {
		hp.Steps = append(hp.Steps, prog.HStep{Op: "send", Msg: &prog.Msg{N: marshalTrap}})
	} else if c.Panic != "" && !c.InInterceptor {
		if c.Overlap {
			hp.Steps = append(hp.Steps, prog.HStep{Op: "sleep", D: 1e9})
		}
		if c.CtxDone {
			hp.Steps = append(hp.Steps, prog.HStep{Op: "waitctx"})
		}
		hp.Steps = append(hp.Steps, pstep)
		for i := 0; i < c.More; i++ {
			hp.Steps = append(hp.Steps, prog.HStep{Op: "send", Msg: &prog.Msg{N: 1000 + int64(i)}})
		}
	} else {
		hp.Drain = c.Cfg.Kind == prog.Client || c.Cfg.Kind == prog.Bidi
	}
	return hp, sent
}

type recCall struct {
	value any
}

func run(c Case, withRecover bool) (*prog.CResult, *memnet.Exchange, []recCall) {
	hp, _ := handlerProg(c)
	var mu sync.Mutex
	var calls []recCall
	var opts []connect.HandlerOption
	if withRecover {
		var ics []connect.Interceptor
		for i := 0; i < c.Before; i++ {
			ics = append(ics, passthrough{})
		}
		if len(ics) > 0 {
			opts = append(opts, connect.WithInterceptors(ics...))
		}
		opts = append(opts, connect.WithRecover(func(ctx context.Context, spec connect.Spec, h http.Header, v any) error {
			mu.Lock()
			calls = append(calls, recCall{value: v})
			mu.Unlock()
			return c.Returns.Build()
		}))
		ics = nil
		for i := 0; i < c.Behind; i++ {
			if i == 0 && c.InInterceptor && c.Panic != "" {
				ics = append(ics, panicker{kind: c.Panic})
				continue
			}
			ics = append(ics, passthrough{})
		}
		if len(ics) > 0 {
			opts = append(opts, connect.WithInterceptors(ics...))
		}
	}
	if c.InMarshal && c.Panic != "" {
		opts = append(opts, connect.WithCodec(trapCodec{kind: c.Panic}))
	}
	log := &prog.HLog{}
	h := prog.NewHandler(c.Cfg.Kind, hp, log, opts...)
	mem := &memnet.Mem{Handler: h}
	cp := &prog.ClientProg{Msgs: []prog.Msg{{N: 1}, {N: 2}, {N: 3}}}
	if c.Cfg.Kind == prog.Bidi {
		cp.Ops = []prog.COp{{Op: "send", Msg: &prog.Msg{N: 1}}, {Op: "closereq"}, {Op: "recvall"}, {Op: "closeresp"}}
	}
	ctx, cancel := context.WithCancel(context.Background())
	defer cancel()
	for i := 0; i < c.Warmups; i++ {
		wp := *cp
		wp.Header = []prog.KV{{K: "X-Verif-No-Panic", V: "1"}}
		_ = prog.RunClient(ctx, mem, c.Cfg, &wp, nil)
		if ex := mem.Last(); ex != nil {
			<-ex.HandlerDone()
		}
	}
	mu.Lock()
	warmCalls := len(calls)
	calls = nil
	mu.Unlock()
	if warmCalls != 0 {
		return &prog.CResult{}, nil, []recCall{{value: "recovery function called during a non-panicking warm-up call"}, {}}
	}
	if c.CtxDone && c.Panic != "" {
		var cancelT context.CancelFunc
		ctx, cancelT = context.WithTimeout(ctx, time.Second) // virtual time
		defer cancelT()
	}
	companionDone := make(chan struct{})
	if c.Overlap && c.Panic != "" {
		go func() {
			defer close(companionDone)
			time.Sleep(100 * time.Millisecond) // the main call's handler is pausing by now
			wp := *cp
			wp.Header = []prog.KV{{K: "X-Verif-No-Panic", V: "1"}}
			_ = prog.RunClient(context.Background(), mem, c.Cfg, &wp, nil)
		}()
	} else {
		close(companionDone)
	}
	res := prog.RunClient(ctx, mem, c.Cfg, cp, cancel)
	<-companionDone
	var ex *memnet.Exchange
	for _, e := range mem.Exchanges() {
		if e.ReqHeader.Get("X-Verif-No-Panic") == "" {
			ex = e // the call under test (the companion may have started later)
		}
	}
	if ex != nil {
		<-ex.HandlerDone()
	}
	for _, e := range mem.Exchanges() {
		<-e.HandlerDone()
	}
	mu.Lock()
	defer mu.Unlock()
	return res, ex, append([]recCall(nil), calls...)
}

func check(tt *testing.T, c Case) (pbt.Info, error) {
	var info pbt.Info
	info.Label("proto:" + c.Cfg.Protocol)
	info.Label("kind:" + c.Cfg.Kind)
	info.Label("panic:" + c.Panic)
	_, sent := handlerProg(c)
	var res *prog.CResult
	var ex *memnet.Exchange
	var calls []recCall
	if berr := pbt.Bubble(tt, func() error { res, ex, calls = run(c, true); return nil }); berr != nil {
		return info, berr
	}
	where := fmt.Sprintf("%s/%s panic(%s) [in an interceptor nested inside WithRecover: %v] after %d steps (after its context ended: %v), %d interceptors before and %d behind WithRecover", c.Cfg.Protocol, c.Cfg.Kind, c.Panic, c.InInterceptor, c.After, c.CtxDone, c.Before, c.Behind)
	if ex == nil {
		return info, fmt.Errorf("%s: no exchange", where)
	}
	if c.Panic == "" {
		info.Label("control-no-panic")
		info.NonTrivial = c.Before+c.Behind > 0
		if len(calls) != 0 {
			return info, fmt.Errorf("%s: recovery function called %d times although nothing panicked", where, len(calls))
		}
		var res2 *prog.CResult
		var ex2 *memnet.Exchange
		if berr := pbt.Bubble(tt, func() error { res2, ex2, _ = run(c, false); return nil }); berr != nil {
			return info, berr
		}
		if ex.Status != ex2.Status || !bytes.Equal(ex.RespBody(), ex2.RespBody()) || !reflect.DeepEqual(ex.RespHeader, ex2.RespHeader) || !reflect.DeepEqual(ex.RespTrailer, ex2.RespTrailer) {
			return info, fmt.Errorf("%s: exchange with WithRecover differs from the same handler without it: %d %v %x %v vs %d %v %x %v", where, ex.Status, ex.RespHeader, ex.RespBody(), ex.RespTrailer, ex2.Status, ex2.RespHeader, ex2.RespBody(), ex2.RespTrailer)
		}
		if (res.Err == nil) != (res2.Err == nil) || len(res.Received) != len(res2.Received) {
			return info, fmt.Errorf("%s: client outcome differs with/without WithRecover", where)
		}
		if res.Err != nil {
			return info, fmt.Errorf("%s: non-panicking call failed: %v", where, res.Err)
		}
		return info, nil
	}
	info.NonTrivial = c.After > 0 || c.Panic == "nil" || c.Panic == "abort" || c.Before > 0 || c.Warmups > 0
	if c.Warmups > 0 {
		info.Label("after-non-panicking-calls-on-same-handler")
	}
	if c.After > 0 {
		info.Label("panic-after-progress")
	}
	v := prog.PanicValue(c.Panic)
	if c.Panic == "abort" {
		if len(calls) != 0 {
			return info, fmt.Errorf("%s: recovery function was called for http.ErrAbortHandler", where)
		}
		if !ex.Panicked {
			return info, fmt.Errorf("%s: ServeHTTP did not re-panic with http.ErrAbortHandler (client: %v)", where, res.Err)
		}
		if ex.PanicValue != http.ErrAbortHandler { //nolint
			return info, fmt.Errorf("%s: ServeHTTP re-panicked with %#v, not the identical abort sentinel", where, ex.PanicValue)
		}
		if res.CleanEnd {
			return info, fmt.Errorf("%s: aborted call reported success", where)
		}
		return info, nil
	}
	if ex.Panicked {
		return info, fmt.Errorf("%s: panic escaped ServeHTTP: %v", where, ex.PanicValue)
	}
	if len(calls) != 1 {
		return info, fmt.Errorf("%s: recovery function called %d times, want exactly 1", where, len(calls))
	}
	want := goRecover(v)
	if !sameValue(calls[0].value, want) {
		return info, fmt.Errorf("%s: recovery function received %#v (%T), a plain deferred recover() yields %#v (%T)", where, calls[0].value, calls[0].value, want, want)
	}
	if c.CtxDone {
		// the client gave up at its deadline: what it reports is its own
		// deadline error (C15), only the server-side clauses apply
		info.Label("panic-after-context-done")
		if res.CleanEnd {
			return info, fmt.Errorf("%s: client saw success", where)
		}
		return info, nil
	}
	// the client receives the error the function returned, after the messages already sent
	if res.CleanEnd || res.Err == nil {
		return info, fmt.Errorf("%s: client saw success (received %d messages)", where, len(res.Received))
	}
	wantCode := c.Returns.Code
	if c.Returns.Plain {
		wantCode = uint32(connect.CodeUnknown)
	}
	if !res.Err.IsConnect || res.Err.Code != wantCode || res.Err.Msg != c.Returns.Msg {
		return info, fmt.Errorf("%s: recovery function returned code %d %q, client received %v", where, wantCode, c.Returns.Msg, res.Err)
	}
	if !c.Returns.Plain {
		if len(res.Err.Details) != len(c.Returns.Details) {
			return info, fmt.Errorf("%s: details: returned %d, received %d", where, len(c.Returns.Details), len(res.Err.Details))
		}
		if err := prog.SubsequenceOf(prog.KVMap(c.Returns.Meta), res.Err.Meta); err != nil {
			return info, fmt.Errorf("%s: metadata: %v", where, err)
		}
	}
	if len(res.Received) != len(sent) {
		return info, fmt.Errorf("%s: handler sent %d messages before panicking, client received %d", where, len(sent), len(res.Received))
	}
	for i := range sent {
		if !res.Received[i].Equal(sent[i]) {
			return info, fmt.Errorf("%s: message %d differs", where, i)
		}
	}
	return info, nil
}

func gen(t *rapid.T) Case {
	c := Case{Cfg: prog.Config{
		Protocol: rapid.SampledFrom(prog.Protocols).Draw(t, "protocol"),
		Codec:    rapid.SampledFrom(prog.Codecs).Draw(t, "codec"),
		Kind:     rapid.SampledFrom(prog.Kinds).Draw(t, "kind"),
	}}
	c.Panic = rapid.SampledFrom([]string{"", "nil", "nil", "error", "connect", "string", "int", "struct", "ptr", "abort", "abort", "wrapabort", "runtime"}).Draw(t, "panic")
	if c.Cfg.Kind != prog.Unary {
		c.After = rapid.IntRange(0, 3).Draw(t, "after")
		c.More = rapid.IntRange(0, 2).Draw(t, "more")
	}
	c.Warmups = rapid.SampledFrom([]int{0, 0, 1, 2}).Draw(t, "warmups")
	c.CtxDone = c.Panic != "" && rapid.IntRange(0, 4).Draw(t, "ctxDone") == 0
	if c.Panic != "" && !c.CtxDone && rapid.IntRange(0, 5).Draw(t, "inInterceptor") == 0 {
		// raised by an interceptor nested inside the recover interceptor,
		// before the handler function is reached
		c.InInterceptor, c.After, c.More = true, 0, 0
	}
	if c.Panic != "" && !c.CtxDone && !c.InInterceptor && c.Cfg.Codec == "proto" && (c.Cfg.Kind == prog.Server || c.Cfg.Kind == prog.Bidi) && rapid.IntRange(0, 5).Draw(t, "inMarshal") == 0 {
		// raised inside conn.Send (the codec panics), i.e. while the handler is sending
		c.InMarshal, c.More, c.Warmups = true, 0, 0
	}
	if c.Panic != "" && !c.CtxDone && !c.InInterceptor && !c.InMarshal && rapid.IntRange(0, 5).Draw(t, "overlap") == 0 {
		c.Overlap = true
	}
	c.Before = rapid.IntRange(0, 2).Draw(t, "before")
	c.Behind = rapid.IntRange(0, 2).Draw(t, "behind")
	if c.InInterceptor {
		c.Behind = max(c.Behind, 1)
	}
	if rapid.IntRange(0, 3).Draw(t, "plainret") == 0 {
		c.Returns = prog.ErrSpec{Plain: true, Msg: rapid.SampledFrom([]string{"recovered", "", "ünï %"}).Draw(t, "retmsg")}
	} else {
		c.Returns = prog.ErrSpec{Code: uint32(rapid.IntRange(1, 16).Draw(t, "retcode")), Msg: rapid.SampledFrom([]string{"recovered", "", "ünï %", "recovered, with a stack trace: " + strings.Repeat("goroutine 1 [running]: main.handler(...) ", 60)}).Draw(t, "retmsg")}
		if rapid.Bool().Draw(t, "retdetail") {
			c.Returns.Details = []prog.DetailSpec{{Kind: "ping", N: 3, S: "d"}}
		}
		if rapid.Bool().Draw(t, "retmeta") {
			c.Returns.Meta = []prog.KV{{K: "X-Recovered", V: "yes"}, {K: "X-Recovered", V: "twice"}}
		}
		// the function may hand its coded error over wrapped (errors.As finds it)
		c.Returns.Wrap = rapid.SampledFrom([]string{"", "", "", "w", "join"}).Draw(t, "retwrap")
	}
	return c
}

var spec = pbt.Spec[Case]{
	Prop: "C19", Name: "recover", Gen: gen, Check: check,
	Rule: "rapid-generated panic value (nil, error, *connect.Error, string, int, struct, pointer, runtime error, http.ErrAbortHandler, an error wrapping it) or a no-panic control × 4 RPC kinds × 3 protocols × 2 codecs × panic point (before any receive, after i receives, after j sends, with further sends scheduled; optionally only after the handler's context has ended because the propagated client deadline passed; or raised by an interceptor declared after WithRecover, i.e. nested inside it; or raised inside conn.Send by the handler's codec; optionally while another, non-panicking call through the same handler starts and finishes) × position of WithRecover among 0..4 pass-through interceptors × what the recovery function returns (coded error with details/metadata, plain error) × 0..2 non-panicking calls through the same handler first; oracle: called exactly once with the value a plain deferred recover() yields for the same panic in the same binary (differential against the Go runtime, so both panicnil modes are covered), client receives exactly the returned error after the messages already sent, the abort sentinel is re-raised identically without calling the function, and a non-panicking exchange is byte-identical to the same handler without WithRecover; non-trivial = progress before the panic OR nil/abort value OR interceptors outside the recover interceptor",
}

func TestRecover(t *testing.T) { pbt.Run(t, spec) }
func TestReplay(t *testing.T)  { pbt.ReplayMain(t, pbt.Replayer(spec)) }
