package c11

import (
	"bytes"
	"context"
	"encoding/base64"
	"fmt"
	"net/http"
	"strings"
	"testing"

	connect "github.com/bufbuild/connect-go"
	"github.com/bufbuild/connect-go/verif/harn"
	"github.com/bufbuild/connect-go/verif/memnet"
	"github.com/bufbuild/connect-go/verif/pbt"
	"github.com/bufbuild/connect-go/verif/prog"
	"pgregory.net/rapid"
)

type Case struct {
	Cfg       prog.Config `json:"cfg"`
	Transport string      `json:"transport"`
	Outcome   string      `json:"outcome"` // ok | ok0 | err0 | errK
	ReqHeader []prog.KV   `json:"req_header"`
	Header    []prog.KV   `json:"header"`
	Trailer   []prog.KV   `json:"trailer"`
	ErrMeta   []prog.KV   `json:"err_meta"`
	// HeaderLate: a handler that reads the request stream sets its response
	// headers only after receiving (still before its first Send / its return)
	HeaderLate bool `json:"header_late,omitempty"`
	// PlainErr: the failing handler returns a plain Go error (no code, no metadata)
	PlainErr bool `json:"plain_err,omitempty"`
}

var keyNames = []string{"A", "B", "Trace-Id", "Long-Name-With-Dashes", "K9"}

func kvGen(t *rapid.T, prefix, label string) []prog.KV {
	nk := rapid.IntRange(0, 4).Draw(t, label+"Keys")
	var kvs []prog.KV
	for i := 0; i < nk; i++ {
		k := prefix + rapid.SampledFrom(keyNames).Draw(t, label+"K")
		if prefix == "X-Req-" && rapid.IntRange(0, 7).Draw(t, label+"OddReq") == 0 {
			// request headers outside the reserved prefixes that merely resemble HTTP's own
			k = rapid.SampledFrom([]string{"Accept-Language", "Content-Language", "Tea", "User-Agent-Extra", "Accept-Datetime"}).Draw(t, label+"OddReqK")
		}
		if prefix == "X-Res-" && rapid.IntRange(0, 7).Draw(t, label+"Odd") == 0 {
			// legal application keys that merely look like something else: a
			// key that begins with unary Connect's trailer carrier prefix, …
			pool := []string{"Tea", "Accept-Language", "Trailers"}
			if label == "trl" {
				// (only as a trailer: a response *header* with that prefix is
				// what unary Connect reserves for carrying trailers)
				pool = append(pool, "Trailer-Id", "Trailer-X-Res-A")
			}
			k = rapid.SampledFrom(pool).Draw(t, label+"OddK")
		}
		bin := rapid.IntRange(0, 3).Draw(t, label+"Bin") == 0
		if bin {
			k += "-Bin"
		}
		nv := rapid.IntRange(1, 3).Draw(t, label+"NV")
		for j := 0; j < nv; j++ {
			var v string
			if bin {
				maxRaw := rapid.SampledFrom([]int{10, 10, 10, 200, 1500}).Draw(t, label+"RawMax")
				raw := rapid.SliceOfN(rapid.Byte(), 0, maxRaw).Draw(t, label+"Raw")
				v = connect.EncodeBinaryHeader(raw)
				if rapid.IntRange(0, 3).Draw(t, label+"Padded") == 0 {
					v = base64.StdEncoding.EncodeToString(raw) // padded spelling: legal, and a value like any other
				}
			} else if rapid.IntRange(0, 6).Draw(t, label+"Empty") == 0 {
				v = ""
			} else {
				if rapid.IntRange(0, 9).Draw(t, label+"LongV") == 0 {
					v = rapid.StringMatching(`[!-~][ -~]{100,600}[!-~]`).Draw(t, label+"VL")
				} else {
					v = rapid.StringMatching(`[!-~]([ -~]{0,10}[!-~])?`).Draw(t, label+"V")
				}
			}
			kvs = append(kvs, prog.KV{K: k, V: v})
		}
	}
	return kvs
}

func gen(transports []string) func(t *rapid.T) Case {
	return func(t *rapid.T) Case {
		c := Case{Transport: rapid.SampledFrom(transports).Draw(t, "transport")}
		c.Cfg = prog.Config{
			Protocol: rapid.SampledFrom(prog.Protocols).Draw(t, "protocol"),
			Codec:    rapid.SampledFrom(prog.Codecs).Draw(t, "codec"),
			Kind:     rapid.SampledFrom(prog.Kinds).Draw(t, "kind"),
		}
		if c.Transport == "h1" && c.Cfg.Kind == prog.Bidi {
			c.Cfg.Kind = prog.Server
		}
		outcomes := []string{"ok", "ok", "err0"}
		if c.Cfg.Kind == prog.Server || c.Cfg.Kind == prog.Bidi {
			outcomes = append(outcomes, "ok0", "errK")
		}
		c.Outcome = rapid.SampledFrom(outcomes).Draw(t, "outcome")
		c.ReqHeader = kvGen(t, "X-Req-", "req")
		// the same key may be used for header and trailer
		c.Header = kvGen(t, "X-Res-", "hdr")
		c.Trailer = kvGen(t, "X-Res-", "trl")
		if strings.HasPrefix(c.Outcome, "err") {
			c.ErrMeta = kvGen(t, "X-Res-", "meta")
			c.PlainErr = rapid.IntRange(0, 3).Draw(t, "plainErr") == 0
		}
		if c.Cfg.Kind == prog.Client || c.Cfg.Kind == prog.Bidi {
			c.HeaderLate = rapid.Bool().Draw(t, "headerLate")
		}
		return c
	}
}

func exactFor(prefix string, want, got http.Header, what string) error {
	if err := prog.SubsequenceOf(want, got); err != nil {
		return fmt.Errorf("%s: %v", what, err)
	}
	return nil
}

// noInvented: every value under an X-Res-/X-Req- key in got is one that some source set.
func noInvented(prefix string, got http.Header, sources ...http.Header) error {
	for k, vals := range got {
		if !strings.HasPrefix(k, prefix) {
			continue
		}
		count := map[string]int{}
		for _, s := range sources {
			for _, v := range s[k] {
				count[v]++
			}
		}
		for _, v := range vals {
			if count[v] == 0 {
				return fmt.Errorf("key %q carries value %q (%q) that nobody set (sources %v)", k, v, vals, sources)
			}
			count[v]--
		}
	}
	return nil
}

func check(tt *testing.T, c Case) (pbt.Info, error) {
	var info pbt.Info
	info.Label("proto:" + c.Cfg.Protocol)
	info.Label("kind:" + c.Cfg.Kind)
	info.Label("outcome:" + c.Outcome)
	info.Label("transport:" + c.Transport)
	hp := &prog.HandlerProg{Header: c.Header, Trailer: c.Trailer, Drain: c.Cfg.Kind == prog.Client || c.Cfg.Kind == prog.Bidi, Resp: &prog.Msg{N: 5}}
	nmsg := 0
	switch c.Outcome {
	case "ok", "errK":
		nmsg = 2
	}
	if c.HeaderLate && (c.Cfg.Kind == prog.Client || c.Cfg.Kind == prog.Bidi) {
		info.Label("headers-set-after-receive")
		hp.Header = nil
		n := 1
		if c.Cfg.Kind == prog.Client {
			n = -1
		}
		hp.Steps = append(hp.Steps, prog.HStep{Op: "recv", N: n})
		for i := range c.Header {
			hp.Steps = append(hp.Steps, prog.HStep{Op: "header", KV: &c.Header[i]})
		}
	}
	if c.Cfg.Kind == prog.Server || c.Cfg.Kind == prog.Bidi {
		for i := 0; i < nmsg; i++ {
			hp.Steps = append(hp.Steps, prog.HStep{Op: "send", Msg: &prog.Msg{N: int64(i + 1), TLen: 5}})
		}
	}
	if strings.HasPrefix(c.Outcome, "err") {
		hp.Final = &prog.ErrSpec{Code: uint32(connect.CodeAborted), Msg: "nope", Meta: c.ErrMeta}
		if c.PlainErr {
			hp.Final = &prog.ErrSpec{Plain: true, Msg: "nope"}
			c.ErrMeta = nil
			info.Label("plain-go-error")
		}
	}
	log := &prog.HLog{}
	h := prog.NewHandler(c.Cfg.Kind, hp, log, c.Cfg.HandlerOptions()...)
	cp := &prog.ClientProg{Header: c.ReqHeader, Msgs: []prog.Msg{{N: 1}}}
	if c.Cfg.Kind == prog.Bidi {
		cp.Ops = []prog.COp{{Op: "send", Msg: &prog.Msg{N: 1}}, {Op: "closereq"}, {Op: "recvall"}, {Op: "closeresp"}}
	}
	var res *prog.CResult
	if err := harn.Over(tt, c.Transport, h, func(hc connect.HTTPClient, mem *memnet.Mem) {
		ctx, cancel := context.WithCancel(context.Background())
		defer cancel()
		res = prog.RunClient(ctx, hc, c.Cfg, cp, cancel)
	}); err != nil {
		return info, err
	}
	multi, bin, both := false, false, false
	hk := prog.KVMap(c.Header)
	tk := prog.KVMap(c.Trailer)
	for _, m := range []http.Header{prog.KVMap(c.ReqHeader), hk, tk, prog.KVMap(c.ErrMeta)} {
		for k, v := range m {
			if len(v) >= 2 {
				multi = true
			}
			if strings.HasSuffix(k, "-Bin") {
				bin = true
			}
		}
	}
	for k := range hk {
		if _, ok := tk[k]; ok {
			both = true
		}
	}
	if multi {
		info.Label("multi-value-key")
	}
	if bin {
		info.Label("bin-key")
	}
	if both {
		info.Label("same-key-header-and-trailer")
	}
	info.NonTrivial = multi || bin || both
	where := fmt.Sprintf("%s/%s/%s over %s, outcome %s", c.Cfg.Protocol, c.Cfg.Codec, c.Cfg.Kind, c.Transport, c.Outcome)
	calls := log.Snapshot()
	if len(calls) != 1 {
		return info, fmt.Errorf("%s: handler ran %d times (client: %v)", where, len(calls), res.Err)
	}
	// request headers reach the handler unchanged
	want := prog.KVMap(c.ReqHeader)
	for k, v := range want {
		got := calls[0].ReqHeader[k]
		if fmt.Sprint(got) != fmt.Sprint(v) {
			return info, fmt.Errorf("%s: request header %q: client set %q, handler saw %q", where, k, v, got)
		}
	}
	if err := noInvented("X-Req-", calls[0].ReqHeader, want); err != nil {
		return info, fmt.Errorf("%s: request headers: %v", where, err)
	}
	streamKind := c.Cfg.Kind == prog.Server || c.Cfg.Kind == prog.Bidi
	switch c.Outcome {
	case "ok":
		if res.Err != nil || !res.CleanEnd {
			return info, fmt.Errorf("%s: call failed: %v", where, res.Err)
		}
		if err := exactFor("X-Res-", hk, res.Header, "response headers"); err != nil {
			return info, fmt.Errorf("%s: %v", where, err)
		}
		if err := exactFor("X-Res-", tk, res.Trailer, "response trailers"); err != nil {
			return info, fmt.Errorf("%s: %v", where, err)
		}
		if err := noInvented("X-Res-", res.Header, hk); err != nil {
			return info, fmt.Errorf("%s: response headers: %v", where, err)
		}
		if err := noInvented("X-Res-", res.Trailer, tk); err != nil {
			return info, fmt.Errorf("%s: response trailers: %v", where, err)
		}
	case "ok0":
		if res.Err != nil || !res.CleanEnd {
			return info, fmt.Errorf("%s: call failed: %v", where, res.Err)
		}
		union := res.Header.Clone()
		for k, v := range res.Trailer {
			union[k] = append(union[k], v...)
		}
		if err := prog.SubsequenceOf(hk, union); err != nil {
			return info, fmt.Errorf("%s: headers∪trailers lack a header value: %v", where, err)
		}
		if err := prog.SubsequenceOf(tk, union); err != nil {
			return info, fmt.Errorf("%s: headers∪trailers lack a trailer value: %v", where, err)
		}
		if err := noInvented("X-Res-", union, hk, tk); err != nil {
			return info, fmt.Errorf("%s: %v", where, err)
		}
	default:
		if res.Err == nil || res.CleanEnd {
			return info, fmt.Errorf("%s: call did not fail", where)
		}
		wantCode := uint32(connect.CodeAborted)
		if c.PlainErr {
			wantCode = uint32(connect.CodeUnknown)
		}
		if res.Err.Code != wantCode {
			return info, fmt.Errorf("%s: wrong error %v", where, res.Err)
		}
		if err := prog.SubsequenceOf(prog.KVMap(c.ErrMeta), res.Err.Meta); err != nil {
			return info, fmt.Errorf("%s: error metadata: %v", where, err)
		}
		if streamKind {
			// headers and trailers set on the stream before failing
			if err := prog.SubsequenceOf(hk, res.Err.Meta); err != nil {
				return info, fmt.Errorf("%s: error metadata lacks a response header: %v", where, err)
			}
			if err := prog.SubsequenceOf(tk, res.Err.Meta); err != nil {
				return info, fmt.Errorf("%s: error metadata lacks a response trailer: %v", where, err)
			}
		}
	}
	return info, nil
}

const rule = "rapid-generated multimaps (0..4 keys × 1..3 values; printable-ASCII values without edge blanks, empty values, -Bin keys with EncodeBinaryHeader values; the same key may appear as header and trailer) set as request headers, response headers, response trailers and error metadata × 3 protocols × 2 codecs × 4 kinds × {success with messages, success with 0 messages, error before the first message, error after messages}; oracle: containment with per-key order (handler sees request headers exactly; on success headers under headers and trailers under trailers, nothing invented; with 0 messages the union; on failure the error metadata); non-trivial = a key with ≥2 values OR a -Bin key OR the same key in header and trailer"

var specMem = pbt.Spec[Case]{Prop: "C11", Name: "mem", Gen: gen([]string{"mem"}), Check: check, Rule: rule}
var specNet = pbt.Spec[Case]{Prop: "C11", Name: "net", Gen: gen([]string{"h1", "h2c"}), Check: check, Rule: "same as [mem] over the real net/http stack (HTTP/1.1 and h2c) in a synctest bubble"}

func TestMem(t *testing.T) { pbt.Run(t, specMem) }
func TestNet(t *testing.T) { pbt.Run(t, specNet) }

// TestBinaryHelpers: Encode/DecodeBinaryHeader round-trip every byte string
// of length ≤ 2 (exhaustively) and random longer ones, padded and unpadded.
func TestBinaryHelpers(t *testing.T) {
	defer pbt.Flush()
	total, nt := 0, 0
	one := func(b []byte) error {
		total++
		enc := connect.EncodeBinaryHeader(b)
		if strings.ContainsAny(enc, "= \r\n") {
			return fmt.Errorf("EncodeBinaryHeader(%x) = %q is padded or contains blanks", b, enc)
		}
		for _, in := range []string{enc, base64.StdEncoding.EncodeToString(b)} {
			dec, err := connect.DecodeBinaryHeader(in)
			if err != nil || !bytes.Equal(dec, b) {
				return fmt.Errorf("DecodeBinaryHeader(%q) = %x, %v; want %x", in, dec, err, b)
			}
		}
		if len(b)%3 != 0 {
			nt++
		}
		return nil
	}
	fail := func(b []byte, err error) {
		path := pbt.SaveReplay(specBin, BinCase{Data: b}, err)
		fmt.Printf("VIOLATION property=C11 replay=%s\n", path)
		t.Fatalf("C11/binary-helpers violated: %v", err)
	}
	if err := one(nil); err != nil {
		fail(nil, err)
	}
	for a := 0; a < 256; a++ {
		if err := one([]byte{byte(a)}); err != nil {
			fail([]byte{byte(a)}, err)
		}
		for b := 0; b < 256; b++ {
			if err := one([]byte{byte(a), byte(b)}); err != nil {
				fail([]byte{byte(a), byte(b)}, err)
			}
		}
	}
	pbt.RecordBulk("C11", "binary-helpers-exhaustive", "all byte strings of length ≤2 through EncodeBinaryHeader/DecodeBinaryHeader, decoding both the unpadded and the padded spelling; non-trivial = length not a multiple of 3 (padding matters)", total, nt, true, map[string]any{"data_hex": "ff", "encoded": connect.EncodeBinaryHeader([]byte{0xff})})
}

type BinCase struct {
	Data []byte `json:"data"`
}

var specBin = pbt.Spec[BinCase]{
	Prop: "C11", Name: "binary-helpers",
	Gen: func(t *rapid.T) BinCase { return BinCase{Data: rapid.SliceOfN(rapid.Byte(), 0, 300).Draw(t, "data")} },
	Check: func(tt *testing.T, c BinCase) (pbt.Info, error) {
		info := pbt.Info{NonTrivial: len(c.Data)%3 != 0}
		enc := connect.EncodeBinaryHeader(c.Data)
		for _, in := range []string{enc, base64.StdEncoding.EncodeToString(c.Data)} {
			dec, err := connect.DecodeBinaryHeader(in)
			if err != nil || !bytes.Equal(dec, c.Data) {
				return info, fmt.Errorf("DecodeBinaryHeader(%q) = %x, %v; want %x", in, dec, err, c.Data)
			}
		}
		return info, nil
	},
	Rule: "random byte strings up to 300 bytes through the binary-header helpers, decoding both padded and unpadded spellings; non-trivial = length not a multiple of 3",
}

func TestBinaryHelpersRandom(t *testing.T) { pbt.Run(t, specBin) }

func TestReplay(t *testing.T) {
	pbt.ReplayMain(t, pbt.Replayer(specMem), pbt.Replayer(specNet), pbt.Replayer(specBin))
}
