package refwire

import (
	"encoding/json"
	"errors"
	"fmt"
	"net/http"
	"strings"

	"github.com/bufbuild/connect-go/verif/comp"
	"google.golang.org/protobuf/encoding/protojson"
	"google.golang.org/protobuf/types/known/anypb"
)

// Knobs are the legal variations a conformant peer may choose.
type Knobs struct {
	LowerHex  bool `json:"lower_hex,omitempty"`  // percent-escapes in lower-case hex
	PadBase64 bool `json:"pad_base64,omitempty"` // padded base64 in -bin values
	// CompressEnd: the final Connect end-of-stream envelope resp. gRPC-Web
	// trailer frame is compressed (and flagged so) with the response encoding
	CompressEnd  bool `json:"compress_end,omitempty"`
	LowerKeys    bool `json:"lower_keys,omitempty"`    // lower-case keys in trailer block / end-stream metadata
	FinalCRLF    bool `json:"final_crlf,omitempty"`    // trailer block ends with CRLF
	TrailersOnly bool `json:"trailers_only,omitempty"` // body-less gRPC response: status in headers
	BareType     bool `json:"bare_type,omitempty"`     // application/grpc instead of application/grpc+proto
	// OmitDetailsBin: a gRPC error without details is sent without
	// grpc-status-details-bin (as most servers do); the message then travels
	// only in the percent-encoded grpc-message.
	OmitDetailsBin bool `json:"omit_details_bin,omitempty"`
}

// RespSpec describes a response to build.
type RespSpec struct {
	Protocol    string
	Kind        string
	ContentType string // echo of the request's
	Msgs        [][]byte
	Encoding    string // algorithm named in the encoding header ("" none)
	CompressMsg []bool // per message: compress (needs Encoding)
	Status      Status // Code 0: OK
	Header      http.Header
	Trailer     http.Header
	Knobs       Knobs
}

func anyJSON(d Detail) json.RawMessage {
	a := &anypb.Any{TypeUrl: d.TypeURL, Value: d.Value}
	b, err := protojson.Marshal(a)
	if err != nil {
		// unknown type: fall back to the {"type","value"} form
		b, _ = json.Marshal(map[string]string{"type": strings.TrimPrefix(d.TypeURL, "type.googleapis.com/"), "value": EncodeBin(d.Value, false)})
	}
	return b
}

func connectErrorJSON(st *Status) []byte {
	m := map[string]any{"code": CodeName(st.Code)}
	if st.Message != "" {
		m["message"] = st.Message
	}
	if len(st.Details) > 0 {
		var ds []json.RawMessage
		for _, d := range st.Details {
			ds = append(ds, anyJSON(d))
		}
		m["details"] = ds
	}
	b, _ := json.Marshal(m)
	return b
}

func grpcStatusMetadata(st *Status, k Knobs) http.Header {
	md := http.Header{}
	md.Set("Grpc-Status", fmt.Sprint(st.Code))
	if st.Message != "" || st.Code != 0 {
		md.Set("Grpc-Message", PercentEncode(st.Message, k.LowerHex))
	}
	if st.Code != 0 && !(k.OmitDetailsBin && len(st.Details) == 0) {
		md.Set("Grpc-Status-Details-Bin", EncodeBin(EncodeStatusProto(st), k.PadBase64))
	}
	return md
}

func merge(into, from http.Header) {
	for k, v := range from {
		ck := http.CanonicalHeaderKey(k)
		into[ck] = append(into[ck], v...)
	}
}

func dataFrames(msgs [][]byte, encoding string, compress []bool) []byte {
	var body []byte
	for i, m := range msgs {
		if i < len(compress) && compress[i] && encoding != "" && encoding != "identity" {
			body = AppendFrame(body, FlagCompressed, comp.Compress(encoding, m))
		} else {
			body = AppendFrame(body, 0, m)
		}
	}
	return body
}

// BuildResponse renders a conformant response.
func BuildResponse(s *RespSpec) (*Response, error) {
	r := &Response{Status: 200, Header: http.Header{}, Trailer: http.Header{}}
	merge(r.Header, s.Header)
	switch s.Protocol {
	case "grpc", "grpcweb":
		r.Header.Set("Content-Type", s.ContentType)
		if s.Encoding != "" {
			r.Header.Set("Grpc-Encoding", s.Encoding)
		}
		md := grpcStatusMetadata(&s.Status, s.Knobs)
		merge(md, s.Trailer)
		if len(s.Msgs) == 0 && s.Knobs.TrailersOnly {
			merge(r.Header, md)
			return r, nil
		}
		r.Body = dataFrames(s.Msgs, s.Encoding, s.CompressMsg)
		if s.Protocol == "grpc" {
			r.Trailer = md
			return r, nil
		}
		block := FormatTrailerBlock(md, s.Knobs.LowerKeys, s.Knobs.FinalCRLF)
		if s.Knobs.CompressEnd && s.Encoding != "" && s.Encoding != "identity" {
			r.Body = AppendFrame(r.Body, FlagGRPCWebTrailer|FlagCompressed, comp.Compress(s.Encoding, block))
			return r, nil
		}
		r.Body = AppendFrame(r.Body, FlagGRPCWebTrailer, block)
		return r, nil
	case "connect":
		if s.Kind == "unary" {
			for k, v := range s.Trailer {
				r.Header[http.CanonicalHeaderKey("Trailer-"+k)] = append([]string(nil), v...)
			}
			if s.Status.Code != 0 {
				r.Status = ConnectHTTPStatus(s.Status.Code)[0]
				r.Header.Set("Content-Type", "application/json")
				r.Body = connectErrorJSON(&s.Status)
				if s.Knobs.CompressEnd && s.Encoding != "" && s.Encoding != "identity" {
					// the error document is the body of this HTTP response and
					// may be content-encoded like any other
					r.Body = comp.Compress(s.Encoding, r.Body)
					r.Header.Set("Content-Encoding", s.Encoding)
				}
				return r, nil
			}
			r.Header.Set("Content-Type", s.ContentType)
			if len(s.Msgs) != 1 {
				return nil, errors.New("refwire: unary response needs exactly one message")
			}
			body := s.Msgs[0]
			if len(s.CompressMsg) > 0 && s.CompressMsg[0] && s.Encoding != "" {
				body = comp.Compress(s.Encoding, body)
				r.Header.Set("Content-Encoding", s.Encoding)
			}
			r.Body = body
			return r, nil
		}
		r.Header.Set("Content-Type", s.ContentType)
		if s.Encoding != "" {
			r.Header.Set("Connect-Content-Encoding", s.Encoding)
		}
		r.Body = dataFrames(s.Msgs, s.Encoding, s.CompressMsg)
		end := map[string]any{}
		if s.Status.Code != 0 {
			end["error"] = json.RawMessage(connectErrorJSON(&s.Status))
		}
		if len(s.Trailer) > 0 {
			md := map[string][]string{}
			for k, v := range s.Trailer {
				kk := http.CanonicalHeaderKey(k)
				if s.Knobs.LowerKeys {
					kk = strings.ToLower(kk)
				}
				md[kk] = append(md[kk], v...)
			}
			end["metadata"] = md
		}
		eb, _ := json.Marshal(end)
		if s.Knobs.CompressEnd && s.Encoding != "" && s.Encoding != "identity" {
			r.Body = AppendFrame(r.Body, FlagConnectEnd|FlagCompressed, comp.Compress(s.Encoding, eb))
			return r, nil
		}
		r.Body = AppendFrame(r.Body, FlagConnectEnd, eb)
		return r, nil
	}
	return nil, fmt.Errorf("refwire: unknown protocol %q", s.Protocol)
}

// ReqSpec describes a request to build.
type ReqSpec struct {
	Protocol    string
	Kind        string
	Codec       string
	Msgs        [][]byte
	Encoding    string
	CompressMsg []bool
	Accept      []string // accept-encoding list, in preference order
	AcceptSep   string   // "," or ", "
	Timeout     string   // raw header value ("" none)
	Header      http.Header
	Knobs       Knobs
}

// Request is a raw HTTP request.
type Request struct {
	Method string
	Header http.Header
	Body   []byte
}

// BuildRequest renders a conformant request.
func BuildRequest(s *ReqSpec) *Request {
	r := &Request{Method: "POST", Header: http.Header{}}
	merge(r.Header, s.Header)
	ct := ContentType(s.Protocol, s.Kind, s.Codec)
	if s.Knobs.BareType && s.Codec == "proto" && s.Protocol != "connect" {
		ct = strings.TrimSuffix(ct, "+proto")
	}
	r.Header.Set("Content-Type", ct)
	sep := s.AcceptSep
	if sep == "" {
		sep = ","
	}
	switch s.Protocol {
	case "grpc", "grpcweb":
		if s.Protocol == "grpc" {
			r.Header.Set("Te", "trailers")
		}
		if s.Encoding != "" {
			r.Header.Set("Grpc-Encoding", s.Encoding)
		}
		if len(s.Accept) > 0 {
			r.Header.Set("Grpc-Accept-Encoding", strings.Join(s.Accept, sep))
		}
		if s.Timeout != "" {
			r.Header.Set("Grpc-Timeout", s.Timeout)
		}
		r.Body = dataFrames(s.Msgs, s.Encoding, s.CompressMsg)
	case "connect":
		if s.Timeout != "" {
			r.Header.Set("Connect-Timeout-Ms", s.Timeout)
		}
		if s.Kind == "unary" {
			if len(s.Accept) > 0 {
				r.Header.Set("Accept-Encoding", strings.Join(s.Accept, sep))
			}
			if len(s.Msgs) > 0 {
				r.Body = s.Msgs[0]
				if len(s.CompressMsg) > 0 && s.CompressMsg[0] && s.Encoding != "" {
					r.Body = comp.Compress(s.Encoding, r.Body)
					r.Header.Set("Content-Encoding", s.Encoding)
				}
			}
		} else {
			if s.Encoding != "" {
				r.Header.Set("Connect-Content-Encoding", s.Encoding)
			}
			if len(s.Accept) > 0 {
				r.Header.Set("Connect-Accept-Encoding", strings.Join(s.Accept, sep))
			}
			r.Body = dataFrames(s.Msgs, s.Encoding, s.CompressMsg)
		}
	}
	return r
}

// DecodedRequest is what a strict server extracts from a request.
type DecodedRequest struct {
	Protocol, Kind, Codec string
	Messages              [][]byte
	Compressed            []bool
	Encoding              string
	Accept                []string
	HasTimeout            bool
	TimeoutNS             int64
	TimeoutOverflow       bool
	Header                http.Header
}

// DecodeRequest strictly decodes a request written by a client that was
// configured with (protocol, kind, codec).
func DecodeRequest(protocol, kind, codec string, r *Request) (*DecodedRequest, error) {
	d := &DecodedRequest{Protocol: protocol, Kind: kind, Codec: codec}
	if r.Method != "POST" {
		return nil, fmt.Errorf("refwire: method %q", r.Method)
	}
	ct, n := get1(r.Header, "Content-Type")
	if n != 1 {
		return nil, fmt.Errorf("refwire: %d Content-Type headers", n)
	}
	want := ContentType(protocol, kind, codec)
	if ct != want && !(codec == "proto" && protocol != "connect" && ct == strings.TrimSuffix(want, "+proto")) {
		return nil, fmt.Errorf("refwire: Content-Type %q, want %q", ct, want)
	}
	var encH, accH, toH string
	switch protocol {
	case "grpc":
		if te, _ := get1(r.Header, "Te"); te != "trailers" {
			return nil, fmt.Errorf("refwire: gRPC request without te: trailers (got %q)", te)
		}
		fallthrough
	case "grpcweb":
		encH, accH, toH = "Grpc-Encoding", "Grpc-Accept-Encoding", "Grpc-Timeout"
	case "connect":
		toH = "Connect-Timeout-Ms"
		if kind == "unary" {
			encH, accH = "Content-Encoding", "Accept-Encoding"
		} else {
			encH, accH = "Connect-Content-Encoding", "Connect-Accept-Encoding"
		}
	}
	d.Encoding, _ = get1(r.Header, encH)
	if acc, n := get1(r.Header, accH); n > 0 {
		for _, a := range strings.Split(acc, ",") {
			if a = strings.TrimSpace(a); a != "" {
				d.Accept = append(d.Accept, a)
			}
		}
	}
	if to, n := get1(r.Header, toH); n > 0 {
		if n != 1 {
			return nil, fmt.Errorf("refwire: %d timeout headers", n)
		}
		d.HasTimeout = true
		if protocol == "connect" {
			ms, err := ParseConnectTimeout(to)
			if err != nil {
				return nil, err
			}
			d.TimeoutNS = ms * 1e6
		} else {
			ns, ov, err := ParseGRPCTimeout(to)
			if err != nil {
				return nil, err
			}
			d.TimeoutNS, d.TimeoutOverflow = ns, ov
		}
	}
	d.Header = without(r.Header, "Content-Type", encH, accH, toH, "Te", "User-Agent", "Accept-Encoding", "Content-Length", "Transfer-Encoding")
	if protocol == "connect" && kind == "unary" {
		body := r.Body
		compressed := d.Encoding != "" && d.Encoding != "identity"
		if compressed && len(body) > 0 {
			b, err := comp.Decompress(d.Encoding, body)
			if err != nil {
				return nil, err
			}
			body = b
		}
		d.Messages = [][]byte{body}
		d.Compressed = []bool{compressed}
		return d, nil
	}
	frames, err := ParseFrames(r.Body)
	if err != nil {
		return nil, err
	}
	d.Messages, d.Compressed, err = decodeDataFrames(frames, d.Encoding, 0)
	if err != nil {
		return nil, err
	}
	return d, nil
}
