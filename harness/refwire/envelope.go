// Package refwire is an independent implementation of the Connect, gRPC and
// gRPC-Web wire formats written from the protocol documents; it shares no
// code with connect-go and serves as the reference oracle.
package refwire

import (
	"encoding/binary"
	"errors"
	"fmt"
)

// Frame is one enveloped message: flags byte + 4-byte big-endian length + payload.
type Frame struct {
	Flags byte
	Data  []byte
}

const (
	FlagCompressed     = 0x01
	FlagConnectEnd     = 0x02
	FlagGRPCWebTrailer = 0x80
)

var (
	ErrPartialPrefix = errors.New("refwire: partial envelope prefix")
	ErrShortPayload  = errors.New("refwire: payload shorter than declared")
)

// AppendFrame appends the encoding of one frame.
func AppendFrame(dst []byte, flags byte, data []byte) []byte {
	var p [5]byte
	p[0] = flags
	binary.BigEndian.PutUint32(p[1:], uint32(len(data)))
	dst = append(dst, p[:]...)
	return append(dst, data...)
}

// ParseFrames strictly splits body into frames. It returns the frames that
// are complete and an error if the body does not end on a frame boundary.
func ParseFrames(body []byte) ([]Frame, error) {
	var frames []Frame
	for len(body) > 0 {
		if len(body) < 5 {
			return frames, ErrPartialPrefix
		}
		n := int(binary.BigEndian.Uint32(body[1:5]))
		if len(body)-5 < n {
			return frames, fmt.Errorf("%w: declared %d, present %d", ErrShortPayload, n, len(body)-5)
		}
		frames = append(frames, Frame{Flags: body[0], Data: body[5 : 5+n]})
		body = body[5+n:]
	}
	return frames, nil
}
