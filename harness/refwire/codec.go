package refwire

import (
	"encoding/base64"
	"encoding/json"
	"errors"
	"fmt"
	"strconv"
	"strings"
	"unicode/utf8"

	"google.golang.org/protobuf/encoding/protowire"
)

// CodeNames are the snake_case names of codes 1..16 (index = code).
var CodeNames = []string{
	"", "canceled", "unknown", "invalid_argument", "deadline_exceeded", "not_found",
	"already_exists", "permission_denied", "resource_exhausted", "failed_precondition",
	"aborted", "out_of_range", "unimplemented", "internal", "unavailable", "data_loss",
	"unauthenticated",
}

func CodeName(c uint32) string {
	if c >= 1 && c <= 16 {
		return CodeNames[c]
	}
	return fmt.Sprintf("code_%d", c)
}

func CodeFromName(s string) (uint32, bool) {
	for i := 1; i <= 16; i++ {
		if CodeNames[i] == s {
			return uint32(i), true
		}
	}
	return 0, false
}

// ConnectHTTPStatus lists the acceptable HTTP statuses for a unary Connect
// error with the given code (published spec revisions differ on a few).
func ConnectHTTPStatus(code uint32) []int {
	switch code {
	case 1:
		return []int{408, 499}
	case 2:
		return []int{500}
	case 3:
		return []int{400}
	case 4:
		return []int{408, 504}
	case 5:
		return []int{404}
	case 6:
		return []int{409}
	case 7:
		return []int{403}
	case 8:
		return []int{429}
	case 9:
		return []int{412, 400}
	case 10:
		return []int{409}
	case 11:
		return []int{400}
	case 12:
		return []int{404, 501}
	case 13:
		return []int{500}
	case 14:
		return []int{503}
	case 15:
		return []int{500}
	case 16:
		return []int{401}
	}
	return []int{500}
}

// PercentEncode implements the grpc-message encoding: bytes outside
// 0x20..0x7E and '%' become %XX.
func PercentEncode(s string, lower bool) string {
	const up, lo = "0123456789ABCDEF", "0123456789abcdef"
	hex := up
	if lower {
		hex = lo
	}
	var b strings.Builder
	for i := 0; i < len(s); i++ {
		c := s[i]
		if c < 0x20 || c > 0x7e || c == '%' {
			b.WriteByte('%')
			b.WriteByte(hex[c>>4])
			b.WriteByte(hex[c&15])
		} else {
			b.WriteByte(c)
		}
	}
	return b.String()
}

func unhex(c byte) (byte, bool) {
	switch {
	case c >= '0' && c <= '9':
		return c - '0', true
	case c >= 'a' && c <= 'f':
		return c - 'a' + 10, true
	case c >= 'A' && c <= 'F':
		return c - 'A' + 10, true
	}
	return 0, false
}

// PercentDecode decodes %XX escapes; malformed escapes are reported via ok=false
// (the caller decides how lenient to be).
func PercentDecode(s string) (string, bool) {
	ok := true
	var b strings.Builder
	for i := 0; i < len(s); i++ {
		if s[i] != '%' {
			b.WriteByte(s[i])
			continue
		}
		if i+2 < len(s) {
			h, ok1 := unhex(s[i+1])
			l, ok2 := unhex(s[i+2])
			if ok1 && ok2 {
				b.WriteByte(h<<4 | l)
				i += 2
				continue
			}
		}
		ok = false
		b.WriteByte(s[i])
	}
	return b.String(), ok
}

// IsHeaderSafe reports whether s consists only of printable ASCII (0x20..0x7E).
func IsHeaderSafe(s string) bool {
	for i := 0; i < len(s); i++ {
		if s[i] < 0x20 || s[i] > 0x7e {
			return false
		}
	}
	return true
}

// DecodeBin decodes a -bin header value (padded or unpadded base64).
func DecodeBin(s string) ([]byte, error) {
	s = strings.TrimRight(s, "=")
	return base64.RawStdEncoding.DecodeString(s)
}

func EncodeBin(b []byte, padded bool) string {
	if padded {
		return base64.StdEncoding.EncodeToString(b)
	}
	return base64.RawStdEncoding.EncodeToString(b)
}

// Detail is one error detail (google.protobuf.Any).
type Detail struct {
	TypeURL string
	Value   []byte
}

// Status is the decoded terminal status of a call. Code 0 = OK.
type Status struct {
	Code    uint32
	Message string
	Details []Detail
}

// EncodeStatusProto encodes google.rpc.Status with protowire.
func EncodeStatusProto(s *Status) []byte {
	var b []byte
	if s.Code != 0 {
		b = protowire.AppendTag(b, 1, protowire.VarintType)
		b = protowire.AppendVarint(b, uint64(int64(int32(s.Code))))
	}
	if s.Message != "" {
		b = protowire.AppendTag(b, 2, protowire.BytesType)
		b = protowire.AppendString(b, s.Message)
	}
	for _, d := range s.Details {
		var a []byte
		if d.TypeURL != "" {
			a = protowire.AppendTag(a, 1, protowire.BytesType)
			a = protowire.AppendString(a, d.TypeURL)
		}
		if len(d.Value) > 0 {
			a = protowire.AppendTag(a, 2, protowire.BytesType)
			a = protowire.AppendBytes(a, d.Value)
		}
		b = protowire.AppendTag(b, 3, protowire.BytesType)
		b = protowire.AppendBytes(b, a)
	}
	return b
}

// DecodeStatusProto decodes google.rpc.Status by field number.
func DecodeStatusProto(b []byte) (*Status, error) {
	s := &Status{}
	for len(b) > 0 {
		num, typ, n := protowire.ConsumeTag(b)
		if n < 0 {
			return nil, errors.New("refwire: bad status tag")
		}
		b = b[n:]
		switch {
		case num == 1 && typ == protowire.VarintType:
			v, n := protowire.ConsumeVarint(b)
			if n < 0 {
				return nil, errors.New("refwire: bad status code")
			}
			s.Code = uint32(int32(v))
			b = b[n:]
		case num == 2 && typ == protowire.BytesType:
			v, n := protowire.ConsumeBytes(b)
			if n < 0 {
				return nil, errors.New("refwire: bad status message")
			}
			if !utf8.Valid(v) {
				return nil, errors.New("refwire: status message is not UTF-8")
			}
			s.Message = string(v)
			b = b[n:]
		case num == 3 && typ == protowire.BytesType:
			v, n := protowire.ConsumeBytes(b)
			if n < 0 {
				return nil, errors.New("refwire: bad status detail")
			}
			b = b[n:]
			var d Detail
			for len(v) > 0 {
				num, typ, n := protowire.ConsumeTag(v)
				if n < 0 {
					return nil, errors.New("refwire: bad any tag")
				}
				v = v[n:]
				if typ != protowire.BytesType {
					m := protowire.ConsumeFieldValue(num, typ, v)
					if m < 0 {
						return nil, errors.New("refwire: bad any field")
					}
					v = v[m:]
					continue
				}
				f, m := protowire.ConsumeBytes(v)
				if m < 0 {
					return nil, errors.New("refwire: bad any bytes")
				}
				v = v[m:]
				switch num {
				case 1:
					d.TypeURL = string(f)
				case 2:
					d.Value = append([]byte(nil), f...)
				}
			}
			s.Details = append(s.Details, d)
		default:
			n := protowire.ConsumeFieldValue(num, typ, b)
			if n < 0 {
				return nil, errors.New("refwire: bad status field")
			}
			b = b[n:]
		}
	}
	return s, nil
}

// EncodePing encodes the two-field ping message {1: int64 number, 2: string text}.
func EncodePing(codec string, n int64, text string) []byte {
	if codec == "json" {
		m := map[string]any{}
		if n != 0 {
			m["number"] = strconv.FormatInt(n, 10)
		}
		if text != "" {
			m["text"] = text
		}
		b, _ := json.Marshal(m)
		return b
	}
	var b []byte
	if n != 0 {
		b = protowire.AppendTag(b, 1, protowire.VarintType)
		b = protowire.AppendVarint(b, uint64(n))
	}
	if text != "" {
		b = protowire.AppendTag(b, 2, protowire.BytesType)
		b = protowire.AppendString(b, text)
	}
	return b
}

// DecodePing decodes a ping message strictly.
func DecodePing(codec string, b []byte) (int64, string, error) {
	if codec == "json" {
		var m map[string]json.RawMessage
		if err := json.Unmarshal(b, &m); err != nil {
			return 0, "", err
		}
		var n int64
		var text string
		for k, v := range m {
			switch k {
			case "number":
				var s string
				if err := json.Unmarshal(v, &s); err == nil {
					x, err := strconv.ParseInt(s, 10, 64)
					if err != nil {
						return 0, "", err
					}
					n = x
				} else if err := json.Unmarshal(v, &n); err != nil {
					return 0, "", err
				}
			case "text":
				if err := json.Unmarshal(v, &text); err != nil {
					return 0, "", err
				}
			default:
				return 0, "", fmt.Errorf("refwire: unknown JSON field %q", k)
			}
		}
		return n, text, nil
	}
	var num int64
	var text string
	for len(b) > 0 {
		f, typ, n := protowire.ConsumeTag(b)
		if n < 0 {
			return 0, "", errors.New("refwire: bad tag")
		}
		b = b[n:]
		switch {
		case f == 1 && typ == protowire.VarintType:
			v, n := protowire.ConsumeVarint(b)
			if n < 0 {
				return 0, "", errors.New("refwire: bad varint")
			}
			num = int64(v)
			b = b[n:]
		case f == 2 && typ == protowire.BytesType:
			v, n := protowire.ConsumeBytes(b)
			if n < 0 {
				return 0, "", errors.New("refwire: bad bytes")
			}
			if !utf8.Valid(v) {
				return 0, "", errors.New("refwire: text is not UTF-8")
			}
			text = string(v)
			b = b[n:]
		default:
			n := protowire.ConsumeFieldValue(f, typ, b)
			if n < 0 {
				return 0, "", errors.New("refwire: bad field")
			}
			b = b[n:]
		}
	}
	return num, text, nil
}

// ParseGRPCTimeout parses 1*8DIGIT unit; returns nanoseconds as a big value
// (hours may exceed int64: ok=false,overflow=true).
func ParseGRPCTimeout(s string) (ns int64, overflow bool, err error) {
	if len(s) < 2 || len(s) > 9 {
		return 0, false, fmt.Errorf("refwire: timeout %q not 1-8 digits + unit", s)
	}
	var unit int64
	switch s[len(s)-1] {
	case 'H':
		unit = 3600e9
	case 'M':
		unit = 60e9
	case 'S':
		unit = 1e9
	case 'm':
		unit = 1e6
	case 'u':
		unit = 1e3
	case 'n':
		unit = 1
	default:
		return 0, false, fmt.Errorf("refwire: timeout %q has no valid unit", s)
	}
	var v int64
	for _, c := range []byte(s[:len(s)-1]) {
		if c < '0' || c > '9' {
			return 0, false, fmt.Errorf("refwire: timeout %q has a non-digit", s)
		}
		v = v*10 + int64(c-'0')
	}
	const maxI = int64(^uint64(0) >> 1)
	if v != 0 && unit > maxI/v {
		return 0, true, nil
	}
	return v * unit, false, nil
}

// ParseConnectTimeout parses 1..10 ASCII digits of milliseconds.
func ParseConnectTimeout(s string) (ms int64, err error) {
	if len(s) < 1 || len(s) > 10 {
		return 0, fmt.Errorf("refwire: connect timeout %q not 1-10 digits", s)
	}
	for _, c := range []byte(s) {
		if c < '0' || c > '9' {
			return 0, fmt.Errorf("refwire: connect timeout %q has a non-digit", s)
		}
		ms = ms*10 + int64(c-'0')
	}
	return ms, nil
}
