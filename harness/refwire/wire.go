package refwire

import (
	"bytes"
	"encoding/json"
	"errors"
	"fmt"
	"net/http"
	"net/textproto"
	"sort"
	"strconv"
	"strings"

	"github.com/bufbuild/connect-go/verif/comp"
	"google.golang.org/protobuf/encoding/protojson"
	"google.golang.org/protobuf/types/known/anypb"
)

// Response is a raw HTTP response as seen on the wire.
type Response struct {
	Status  int
	Header  http.Header
	Body    []byte
	Trailer http.Header
}

// Decoded is what a strict peer extracts from a response.
type Decoded struct {
	Messages   [][]byte // decompressed payloads in order
	Compressed []bool
	Status     Status      // Code 0 = OK
	Header     http.Header // leading metadata (protocol headers removed)
	Trailer    http.Header // trailing metadata (protocol trailers removed)
	Encoding   string
	Terminator string // "http-trailers" | "trailers-only-headers" | "web-frame" | "end-stream" | "unary-body" | "unary-error"
}

func ContentType(protocol, kind, codec string) string {
	switch protocol {
	case "grpc":
		return "application/grpc+" + codec
	case "grpcweb":
		return "application/grpc-web+" + codec
	}
	if kind == "unary" {
		return "application/" + codec
	}
	return "application/connect+" + codec
}

func get1(h http.Header, key string) (string, int) {
	v := h[http.CanonicalHeaderKey(key)]
	if len(v) == 0 {
		return "", 0
	}
	return v[0], len(v)
}

func without(h http.Header, drop ...string) http.Header {
	out := make(http.Header)
	d := map[string]bool{}
	for _, k := range drop {
		d[http.CanonicalHeaderKey(k)] = true
	}
	for k, v := range h {
		if d[http.CanonicalHeaderKey(k)] {
			continue
		}
		out[http.CanonicalHeaderKey(k)] = append(out[http.CanonicalHeaderKey(k)], v...)
	}
	return out
}

var grpcProtocolHeaders = []string{"Content-Type", "Grpc-Encoding", "Grpc-Accept-Encoding", "Date", "Content-Length", "Trailer", "Transfer-Encoding"}
var grpcProtocolTrailers = []string{"Grpc-Status", "Grpc-Message", "Grpc-Status-Details-Bin"}

func statusFromGRPCMetadata(md http.Header) (*Status, error) {
	sv, n := get1(md, "Grpc-Status")
	if n != 1 {
		return nil, fmt.Errorf("refwire: %d grpc-status values (want exactly 1)", n)
	}
	if sv == "" || len(sv) > 10 {
		return nil, fmt.Errorf("refwire: grpc-status %q is not a decimal integer", sv)
	}
	for _, c := range []byte(sv) {
		if c < '0' || c > '9' {
			return nil, fmt.Errorf("refwire: grpc-status %q is not a decimal integer", sv)
		}
	}
	code, err := strconv.ParseUint(sv, 10, 32)
	if err != nil {
		return nil, err
	}
	st := &Status{Code: uint32(code)}
	mv, mn := get1(md, "Grpc-Message")
	if mn > 1 {
		return nil, fmt.Errorf("refwire: %d grpc-message values", mn)
	}
	if !IsHeaderSafe(mv) {
		return nil, fmt.Errorf("refwire: grpc-message %q contains bytes outside printable ASCII", mv)
	}
	msg, ok := PercentDecode(mv)
	if !ok {
		return nil, fmt.Errorf("refwire: grpc-message %q has a malformed %%-escape", mv)
	}
	st.Message = msg
	dv, dn := get1(md, "Grpc-Status-Details-Bin")
	if dn > 1 {
		return nil, fmt.Errorf("refwire: %d grpc-status-details-bin values", dn)
	}
	if dn == 1 {
		raw, err := DecodeBin(dv)
		if err != nil {
			return nil, fmt.Errorf("refwire: grpc-status-details-bin: %w", err)
		}
		ds, err := DecodeStatusProto(raw)
		if err != nil {
			return nil, err
		}
		if ds.Code != st.Code {
			return nil, fmt.Errorf("refwire: details status code %d != grpc-status %d", ds.Code, st.Code)
		}
		// HTTP strips optional whitespace around field values, so blanks at
		// either end of grpc-message are not significant; the binary status
		// carries the exact text.
		if strings.Trim(ds.Message, " \t") != strings.Trim(st.Message, " \t") {
			return nil, fmt.Errorf("refwire: details status message %q != grpc-message %q", ds.Message, st.Message)
		}
		st.Message = ds.Message
		st.Details = ds.Details
	}
	return st, nil
}

func decodeDataFrames(frames []Frame, encoding string, allowed byte) ([][]byte, []bool, error) {
	var msgs [][]byte
	var cs []bool
	for i, f := range frames {
		if f.Flags&^(FlagCompressed|allowed) != 0 {
			return nil, nil, fmt.Errorf("refwire: frame %d has illegal flags %#x", i, f.Flags)
		}
		data := f.Data
		if f.Flags&FlagCompressed != 0 {
			if encoding == "" || encoding == "identity" {
				return nil, nil, fmt.Errorf("refwire: frame %d flagged compressed but no encoding header names an algorithm", i)
			}
			d, err := comp.Decompress(encoding, data)
			if err != nil {
				return nil, nil, fmt.Errorf("refwire: frame %d: decompress %s: %w", i, encoding, err)
			}
			data = d
		}
		msgs = append(msgs, data)
		cs = append(cs, f.Flags&FlagCompressed != 0)
	}
	return msgs, cs, nil
}

// DecodeResponse strictly decodes a response to a request that was sent with
// the given protocol, kind and Content-Type.
func DecodeResponse(protocol, kind, reqContentType string, r *Response) (*Decoded, error) {
	d := &Decoded{}
	ct, _ := get1(r.Header, "Content-Type")
	switch protocol {
	case "grpc", "grpcweb":
		if r.Status != 200 {
			return nil, fmt.Errorf("refwire: %s response with HTTP status %d (must be 200)", protocol, r.Status)
		}
		if ct != reqContentType {
			return nil, fmt.Errorf("refwire: response Content-Type %q does not echo request's %q", ct, reqContentType)
		}
		enc, n := get1(r.Header, "Grpc-Encoding")
		if n > 1 {
			return nil, errors.New("refwire: several grpc-encoding headers")
		}
		d.Encoding = enc
		frames, err := ParseFrames(r.Body)
		if err != nil {
			return nil, err
		}
		_, inHeaders := get1(r.Header, "Grpc-Status")
		var md http.Header
		if protocol == "grpc" {
			_, inTrailers := get1(r.Trailer, "Grpc-Status")
			switch {
			case inHeaders > 0 && inTrailers > 0:
				return nil, errors.New("refwire: grpc-status in both headers and trailers")
			case inHeaders > 0:
				if len(r.Body) != 0 {
					return nil, errors.New("refwire: grpc-status in headers of a response that has a body")
				}
				md = r.Header
				d.Terminator = "trailers-only-headers"
			default:
				md = r.Trailer
				d.Terminator = "http-trailers"
			}
			d.Messages, d.Compressed, err = decodeDataFrames(frames, enc, 0)
			if err != nil {
				return nil, err
			}
		} else {
			if len(frames) == 0 {
				if inHeaders == 0 {
					return nil, errors.New("refwire: grpc-web response without trailer frame and without grpc-status header")
				}
				md = r.Header
				d.Terminator = "trailers-only-headers"
			} else {
				if inHeaders > 0 {
					return nil, errors.New("refwire: grpc-status in headers of a grpc-web response that has a body")
				}
				last := frames[len(frames)-1]
				if last.Flags&FlagGRPCWebTrailer == 0 {
					return nil, errors.New("refwire: grpc-web body does not end with a trailer frame")
				}
				for i, f := range frames[:len(frames)-1] {
					if f.Flags&FlagGRPCWebTrailer != 0 {
						return nil, fmt.Errorf("refwire: trailer frame at position %d is not last", i)
					}
				}
				block := last.Data
				if last.Flags&FlagCompressed != 0 {
					if enc == "" || enc == "identity" {
						return nil, errors.New("refwire: compressed trailer frame without encoding")
					}
					block, err = comp.Decompress(enc, block)
					if err != nil {
						return nil, err
					}
				}
				md, err = ParseTrailerBlock(block)
				if err != nil {
					return nil, err
				}
				d.Terminator = "web-frame"
				d.Messages, d.Compressed, err = decodeDataFrames(frames[:len(frames)-1], enc, 0)
				if err != nil {
					return nil, err
				}
			}
		}
		st, err := statusFromGRPCMetadata(md)
		if err != nil {
			return nil, err
		}
		d.Status = *st
		if d.Terminator == "trailers-only-headers" {
			d.Header = http.Header{}
			d.Trailer = without(md, append(grpcProtocolHeaders, grpcProtocolTrailers...)...)
		} else {
			d.Header = without(r.Header, grpcProtocolHeaders...)
			d.Trailer = without(md, grpcProtocolTrailers...)
		}
		return d, nil
	case "connect":
		if kind == "unary" {
			return decodeConnectUnary(reqContentType, r)
		}
		if r.Status != 200 {
			return nil, fmt.Errorf("refwire: connect streaming response with HTTP status %d (must be 200)", r.Status)
		}
		if ct != reqContentType {
			return nil, fmt.Errorf("refwire: response Content-Type %q does not echo request's %q", ct, reqContentType)
		}
		enc, _ := get1(r.Header, "Connect-Content-Encoding")
		d.Encoding = enc
		frames, err := ParseFrames(r.Body)
		if err != nil {
			return nil, err
		}
		if len(frames) == 0 {
			return nil, errors.New("refwire: connect stream without end-of-stream envelope")
		}
		last := frames[len(frames)-1]
		if last.Flags&FlagConnectEnd == 0 {
			return nil, errors.New("refwire: connect stream does not end with an end-of-stream envelope")
		}
		for i, f := range frames[:len(frames)-1] {
			if f.Flags&FlagConnectEnd != 0 {
				return nil, fmt.Errorf("refwire: end-of-stream envelope at position %d is not last", i)
			}
		}
		if last.Flags&^(FlagConnectEnd|FlagCompressed) != 0 {
			return nil, fmt.Errorf("refwire: illegal flags %#x on end-of-stream envelope", last.Flags)
		}
		end := last.Data
		if last.Flags&FlagCompressed != 0 {
			if enc == "" || enc == "identity" {
				return nil, errors.New("refwire: compressed end-of-stream envelope without encoding")
			}
			end, err = comp.Decompress(enc, end)
			if err != nil {
				return nil, err
			}
		}
		st, md, err := ParseEndStream(end)
		if err != nil {
			return nil, err
		}
		d.Status = *st
		d.Trailer = md
		d.Header = without(r.Header, "Content-Type", "Connect-Content-Encoding", "Connect-Accept-Encoding", "Date", "Content-Length", "Transfer-Encoding")
		d.Terminator = "end-stream"
		d.Messages, d.Compressed, err = decodeDataFrames(frames[:len(frames)-1], enc, 0)
		if err != nil {
			return nil, err
		}
		return d, nil
	}
	return nil, fmt.Errorf("refwire: unknown protocol %q", protocol)
}

func splitConnectUnaryHeaders(h http.Header) (hdr, trl http.Header) {
	hdr, trl = http.Header{}, http.Header{}
	for k, v := range h {
		ck := http.CanonicalHeaderKey(k)
		if strings.HasPrefix(ck, "Trailer-") {
			trl[strings.TrimPrefix(ck, "Trailer-")] = append([]string(nil), v...)
			continue
		}
		switch ck {
		case "Content-Type", "Content-Encoding", "Accept-Encoding", "Date", "Content-Length", "Transfer-Encoding":
			continue
		}
		hdr[ck] = append([]string(nil), v...)
	}
	return hdr, trl
}

func decodeConnectUnary(reqContentType string, r *Response) (*Decoded, error) {
	d := &Decoded{}
	ct, _ := get1(r.Header, "Content-Type")
	enc, _ := get1(r.Header, "Content-Encoding")
	d.Encoding = enc
	d.Header, d.Trailer = splitConnectUnaryHeaders(r.Header)
	body := r.Body
	if enc != "" && enc != "identity" && len(body) > 0 {
		b, err := comp.Decompress(enc, body)
		if err != nil {
			return nil, fmt.Errorf("refwire: connect unary body: decompress %s: %w", enc, err)
		}
		body = b
	}
	if r.Status == 200 {
		if ct != reqContentType {
			return nil, fmt.Errorf("refwire: response Content-Type %q does not echo request's %q", ct, reqContentType)
		}
		d.Messages = [][]byte{body}
		d.Compressed = []bool{enc != "" && enc != "identity"}
		d.Terminator = "unary-body"
		return d, nil
	}
	if r.Status < 400 || r.Status > 599 {
		return nil, fmt.Errorf("refwire: connect unary error with HTTP status %d (must be 4xx/5xx)", r.Status)
	}
	if ct != "application/json" {
		return nil, fmt.Errorf("refwire: connect unary error with Content-Type %q (must be application/json)", ct)
	}
	st, err := ParseConnectError(body)
	if err != nil {
		return nil, err
	}
	okStatus := false
	for _, s := range ConnectHTTPStatus(st.Code) {
		if s == r.Status {
			okStatus = true
		}
	}
	if !okStatus {
		return nil, fmt.Errorf("refwire: connect unary error code %s under HTTP status %d (expected one of %v)", CodeName(st.Code), r.Status, ConnectHTTPStatus(st.Code))
	}
	d.Status = *st
	d.Terminator = "unary-error"
	return d, nil
}

type wireError struct {
	Code    *string           `json:"code"`
	Message *string           `json:"message"`
	Details []json.RawMessage `json:"details"`
}

// ParseConnectError strictly parses the JSON error object.
func ParseConnectError(b []byte) (*Status, error) {
	var we wireError
	dec := json.NewDecoder(bytes.NewReader(b))
	if err := dec.Decode(&we); err != nil {
		return nil, fmt.Errorf("refwire: connect error JSON: %w", err)
	}
	return statusFromWireError(&we)
}

func statusFromWireError(we *wireError) (*Status, error) {
	if we.Code == nil {
		return nil, errors.New("refwire: connect error without code")
	}
	code, ok := CodeFromName(*we.Code)
	if !ok {
		return nil, fmt.Errorf("refwire: connect error code %q is not a defined name", *we.Code)
	}
	st := &Status{Code: code}
	if we.Message != nil {
		st.Message = *we.Message
	}
	for _, raw := range we.Details {
		// both published detail encodings are accepted
		var tv struct {
			Type  string `json:"type"`
			Value string `json:"value"`
		}
		if err := json.Unmarshal(raw, &tv); err == nil && tv.Type != "" {
			v, err := DecodeBin(tv.Value)
			if err != nil {
				return nil, err
			}
			st.Details = append(st.Details, Detail{TypeURL: "type.googleapis.com/" + tv.Type, Value: v})
			continue
		}
		var a anypb.Any
		if err := protojson.Unmarshal(raw, &a); err != nil {
			return nil, fmt.Errorf("refwire: connect error detail: %w", err)
		}
		st.Details = append(st.Details, Detail{TypeURL: a.TypeUrl, Value: a.Value})
	}
	return st, nil
}

// ParseEndStream strictly parses the Connect end-of-stream JSON.
func ParseEndStream(b []byte) (*Status, http.Header, error) {
	var es struct {
		Error    *wireError          `json:"error"`
		Metadata map[string][]string `json:"metadata"`
	}
	if err := json.Unmarshal(b, &es); err != nil {
		return nil, nil, fmt.Errorf("refwire: end-of-stream JSON: %w", err)
	}
	st := &Status{}
	if es.Error != nil {
		s, err := statusFromWireError(es.Error)
		if err != nil {
			return nil, nil, err
		}
		st = s
	}
	md := http.Header{}
	for k, v := range es.Metadata {
		ck := http.CanonicalHeaderKey(k)
		md[ck] = append(md[ck], v...)
	}
	return st, md, nil
}

// ParseTrailerBlock parses a gRPC-Web trailer frame: HTTP/1 header lines.
func ParseTrailerBlock(b []byte) (http.Header, error) {
	md := http.Header{}
	s := string(b)
	for len(s) > 0 {
		var line string
		if i := strings.Index(s, "\r\n"); i >= 0 {
			line, s = s[:i], s[i+2:]
		} else {
			line, s = s, ""
		}
		if line == "" {
			if s != "" {
				return nil, errors.New("refwire: data after blank line in trailer block")
			}
			break
		}
		i := strings.IndexByte(line, ':')
		if i <= 0 {
			return nil, fmt.Errorf("refwire: malformed trailer line %q", line)
		}
		k, v := line[:i], strings.TrimLeft(line[i+1:], " \t")
		v = strings.TrimRight(v, " \t")
		for _, c := range []byte(k) {
			if c <= ' ' || c >= 0x7f || c == ':' {
				return nil, fmt.Errorf("refwire: bad trailer name %q", k)
			}
		}
		ck := textproto.CanonicalMIMEHeaderKey(k)
		md[ck] = append(md[ck], v)
	}
	return md, nil
}

// FormatTrailerBlock renders a gRPC-Web trailer block.
func FormatTrailerBlock(md http.Header, lowerKeys bool, finalCRLF bool) []byte {
	keys := make([]string, 0, len(md))
	for k := range md {
		keys = append(keys, k)
	}
	sort.Strings(keys)
	var b bytes.Buffer
	for _, k := range keys {
		for _, v := range md[k] {
			kk := k
			if lowerKeys {
				kk = strings.ToLower(k)
			}
			b.WriteString(kk + ": " + v + "\r\n")
		}
	}
	// every line ends with CRLF; the optional knob adds the terminating blank
	// line of a full HTTP/1 header block
	if finalCRLF {
		b.WriteString("\r\n")
	}
	return b.Bytes()
}
