// Package memnet provides in-memory transports that let the harness own
// every byte and every failure between a connect client and handler.
package memnet

import (
	"bytes"
	"context"
	"errors"
	"fmt"
	"io"
	"net/http"
	"net/textproto"
	"net/url"
	"strings"
	"sync"
)

// Exchange records one HTTP exchange carried by Mem.
type Exchange struct {
	mu          sync.Mutex
	Method      string
	URL         string
	ReqHeader   http.Header
	reqBody     bytes.Buffer
	Status      int
	RespHeader  http.Header
	respBody    bytes.Buffer
	RespTrailer http.Header
	Panicked    bool
	PanicValue  any
	bodyCloses  int
	bodyEOF     bool
	done        chan struct{} // handler returned
	finished    chan struct{} // handler returned and response body closed or read to EOF (or aborted)
	finOnce     sync.Once
}

func (e *Exchange) ReqBody() []byte {
	e.mu.Lock()
	defer e.mu.Unlock()
	return append([]byte(nil), e.reqBody.Bytes()...)
}
func (e *Exchange) RespBody() []byte {
	e.mu.Lock()
	defer e.mu.Unlock()
	return append([]byte(nil), e.respBody.Bytes()...)
}
func (e *Exchange) BodyCloses() int {
	e.mu.Lock()
	defer e.mu.Unlock()
	return e.bodyCloses
}
func (e *Exchange) HandlerDone() <-chan struct{} { return e.done }

// Mem is an in-memory, full-duplex connect.HTTPClient that serves requests
// with Handler. It follows net/http's ResponseWriter contract (headers are
// frozen at the first WriteHeader/flush, http.TrailerPrefix keys and declared
// Trailer keys become Response.Trailer) and propagates cancellation like a
// reset HTTP/2 stream.
type Mem struct {
	Handler    http.Handler
	ProtoMajor int // 1 or 2 (default 2)
	ReqWindow  int // bytes buffered client→server (0: unbounded)
	RespWindow int // bytes buffered server→client (0: unbounded)
	// LingerRequest: after the handler has finished, keep consuming (and
	// discarding) the request body until the client ends it, instead of closing
	// it. An HTTP client is free to do so: the response is complete, what
	// becomes of request bytes sent afterwards is nobody's business. (net/http's
	// HTTP/2 transport closes the body, but only some time after the response's
	// end became visible to the caller.)
	LingerRequest bool

	mu          sync.Mutex
	exchanges   []*Exchange
	inflight    int
	MaxInflight int
}

func (m *Mem) Exchanges() []*Exchange {
	m.mu.Lock()
	defer m.mu.Unlock()
	return append([]*Exchange(nil), m.exchanges...)
}

func (m *Mem) Last() *Exchange {
	m.mu.Lock()
	defer m.mu.Unlock()
	if len(m.exchanges) == 0 {
		return nil
	}
	return m.exchanges[len(m.exchanges)-1]
}

var errStreamClosed = errors.New("http2: stream closed")

type resetError struct{ code string }

func (r resetError) Error() string {
	return "stream error: stream ID 1; " + r.code + "; received from peer"
}

type memStream struct {
	m       *Mem
	ex      *Exchange
	ctx     context.Context // client ctx
	scancel context.CancelFunc
	req     *http.Request // client request
	reqPipe *bufPipe
	resPipe *bufPipe

	mu           sync.Mutex
	header       http.Header // live handler header map
	wroteHeader  bool
	sentHeader   bool
	status       int
	snapshot     http.Header
	pending      []byte
	ready        chan struct{}
	readyOnce    sync.Once
	trailer      http.Header // the map handed to the client as Response.Trailer
	finalTrailer http.Header // set by finish(); published at EOF
	aborted      error
	handlerDone  bool
}

// Do implements connect.HTTPClient.
func (m *Mem) Do(req *http.Request) (*http.Response, error) {
	ctx := req.Context()
	wrapErr := func(err error) error {
		return &url.Error{Op: "Post", URL: req.URL.String(), Err: err}
	}
	if err := ctx.Err(); err != nil {
		if req.Body != nil {
			_ = req.Body.Close()
		}
		return nil, wrapErr(err)
	}
	major := m.ProtoMajor
	if major == 0 {
		major = 2
	}
	ex := &Exchange{
		Method:    req.Method,
		URL:       req.URL.String(),
		ReqHeader: make(http.Header),
		done:      make(chan struct{}),
		finished:  make(chan struct{}),
	}
	for k, v := range req.Header {
		ck := textproto.CanonicalMIMEHeaderKey(k)
		ex.ReqHeader[ck] = append(ex.ReqHeader[ck], v...)
	}
	m.mu.Lock()
	m.exchanges = append(m.exchanges, ex)
	m.inflight++
	if m.inflight > m.MaxInflight {
		m.MaxInflight = m.inflight
	}
	m.mu.Unlock()

	sctx, scancel := context.WithCancel(context.Background())
	st := &memStream{
		m: m, ex: ex, ctx: ctx, scancel: scancel, req: req,
		reqPipe: newBufPipe(m.ReqWindow),
		resPipe: newBufPipe(m.RespWindow),
		header:  make(http.Header),
		ready:   make(chan struct{}),
		trailer: make(http.Header),
	}
	sreq, err := http.NewRequestWithContext(sctx, req.Method, req.URL.String(), &serverBody{st: st})
	if err != nil {
		scancel()
		return nil, wrapErr(err)
	}
	sreq.Header = ex.ReqHeader.Clone()
	sreq.Proto = fmt.Sprintf("HTTP/%d.%d", major, map[int]int{1: 1, 2: 0}[major])
	sreq.ProtoMajor, sreq.ProtoMinor = major, map[int]int{1: 1, 2: 0}[major]
	sreq.ContentLength = -1
	sreq.RemoteAddr = "mem:1"
	sreq.RequestURI = req.URL.RequestURI()
	sreq.Host = req.URL.Host

	// request pump: what a transport's body-writer goroutine does
	go func() {
		if req.Body == nil {
			st.reqPipe.CloseWrite(nil)
			return
		}
		buf := make([]byte, 32*1024)
		for {
			n, rerr := req.Body.Read(buf)
			if n > 0 {
				ex.mu.Lock()
				ex.reqBody.Write(buf[:n])
				ex.mu.Unlock()
				if _, werr := st.reqPipe.Write(buf[:n]); werr != nil {
					if m.LingerRequest {
						st.mu.Lock()
						hd := st.handlerDone
						st.mu.Unlock()
						if hd {
							continue // response complete: swallow what the client still sends
						}
					}
					return
				}
			}
			if rerr == io.EOF {
				st.reqPipe.CloseWrite(nil)
				return
			}
			if rerr != nil {
				// the client abandoned the request body: reset the stream
				st.mu.Lock()
				hd := st.handlerDone
				st.mu.Unlock()
				if !hd {
					st.abort(resetError{"CANCEL"}, errors.New("client disconnected"))
				}
				return
			}
		}
	}()

	// handler goroutine
	go func() {
		defer func() {
			m.mu.Lock()
			m.inflight--
			m.mu.Unlock()
		}()
		defer close(ex.done)
		returned := false
		defer func() {
			// (not "if r := recover(); r != nil": panic(nil) must be seen too)
			if r := recover(); !returned {
				ex.mu.Lock()
				ex.Panicked, ex.PanicValue = true, r
				ex.mu.Unlock()
				st.abort(resetError{"INTERNAL_ERROR"}, errStreamClosed)
				st.mu.Lock()
				st.handlerDone = true
				st.mu.Unlock()
				st.readyOnce.Do(func() { close(st.ready) })
			}
		}()
		m.Handler.ServeHTTP(&memRW{st: st}, sreq)
		returned = true
		st.finish()
	}()

	// cancellation watcher
	go func() {
		select {
		case <-ctx.Done():
			st.abort(ctx.Err(), errors.New("client disconnected"))
		case <-ex.finished:
		}
	}()

	select {
	case <-st.ready:
	case <-ctx.Done():
		st.abort(ctx.Err(), errors.New("client disconnected"))
		return nil, wrapErr(ctx.Err())
	}
	st.mu.Lock()
	ab, sent := st.aborted, st.sentHeader
	st.mu.Unlock()
	if !sent {
		if ab == nil {
			ab = errors.New("memnet: no response")
		}
		return nil, wrapErr(ab)
	}
	resp := &http.Response{
		Status:        fmt.Sprintf("%d %s", st.status, http.StatusText(st.status)),
		StatusCode:    st.status,
		Proto:         sreq.Proto,
		ProtoMajor:    sreq.ProtoMajor,
		ProtoMinor:    sreq.ProtoMinor,
		Header:        st.snapshot.Clone(),
		Body:          &clientBody{st: st},
		ContentLength: -1,
		Trailer:       st.trailer,
		Request:       req,
	}
	return resp, nil
}

// abort resets the stream: the client sees clientErr, the handler serverErr.
func (st *memStream) abort(clientErr, serverErr error) {
	st.mu.Lock()
	if st.aborted == nil {
		st.aborted = clientErr
	}
	st.mu.Unlock()
	st.resPipe.Break(clientErr)
	st.reqPipe.Break(serverErr)
	st.scancel()
	if st.req.Body != nil {
		_ = st.req.Body.Close()
	}
	st.ex.finOnce.Do(func() { close(st.ex.finished) })
}

func (st *memStream) sendHeaderLocked() {
	if st.sentHeader {
		return
	}
	if !st.wroteHeader {
		st.freezeLocked(http.StatusOK)
	}
	st.sentHeader = true
	st.ex.mu.Lock()
	st.ex.Status = st.status
	st.ex.RespHeader = st.snapshot.Clone()
	st.ex.mu.Unlock()
	st.readyOnce.Do(func() { close(st.ready) })
}

func (st *memStream) freezeLocked(code int) {
	if st.wroteHeader {
		return
	}
	st.wroteHeader = true
	st.status = code
	st.snapshot = make(http.Header)
	for k, v := range st.header {
		if strings.HasPrefix(k, http.TrailerPrefix) {
			continue
		}
		st.snapshot[k] = append([]string(nil), v...)
	}
}

func (st *memStream) flushLocked() error {
	st.sendHeaderLocked()
	if len(st.pending) == 0 {
		return nil
	}
	data := st.pending
	st.pending = nil
	st.ex.mu.Lock()
	st.ex.respBody.Write(data)
	st.ex.mu.Unlock()
	st.mu.Unlock()
	_, err := st.resPipe.Write(data)
	st.mu.Lock()
	return err
}

// finish runs after ServeHTTP returned normally.
func (st *memStream) finish() {
	st.mu.Lock()
	_ = st.flushLocked()
	// trailers: declared via "Trailer" header before the freeze, or TrailerPrefix
	declared := map[string]bool{}
	for _, line := range st.snapshot["Trailer"] {
		for _, k := range strings.Split(line, ",") {
			declared[textproto.CanonicalMIMEHeaderKey(strings.TrimSpace(k))] = true
		}
	}
	tr := make(http.Header)
	for k, v := range st.header {
		switch {
		case strings.HasPrefix(k, http.TrailerPrefix):
			kk := strings.TrimPrefix(k, http.TrailerPrefix)
			tr[kk] = append(tr[kk], v...)
		case declared[k]:
			tr[k] = append(tr[k], v...)
		}
	}
	st.finalTrailer = tr // copied into Response.Trailer by the reading goroutine when it reaches EOF
	st.ex.mu.Lock()
	st.ex.RespTrailer = tr.Clone()
	st.ex.mu.Unlock()
	st.handlerDone = true
	st.mu.Unlock()
	st.resPipe.CloseWrite(nil)
	// like a server that finished its response: stop reading the request
	st.reqPipe.Break(errStreamClosed)
	st.scancel()
	if st.req.Body != nil && !st.m.LingerRequest {
		_ = st.req.Body.Close()
	}
}

type memRW struct{ st *memStream }

func (w *memRW) Header() http.Header { return w.st.header }

func (w *memRW) WriteHeader(code int) {
	if code >= 100 && code < 200 {
		return
	}
	w.st.mu.Lock()
	w.st.freezeLocked(code)
	w.st.mu.Unlock()
}

func (w *memRW) Write(b []byte) (int, error) {
	st := w.st
	st.mu.Lock()
	defer st.mu.Unlock()
	if st.aborted != nil {
		return 0, errStreamClosed
	}
	st.freezeLocked(http.StatusOK)
	st.pending = append(st.pending, b...)
	if len(st.pending) >= 4096 {
		if err := st.flushLocked(); err != nil {
			return 0, errStreamClosed
		}
	}
	return len(b), nil
}

func (w *memRW) Flush() {
	st := w.st
	st.mu.Lock()
	defer st.mu.Unlock()
	if st.aborted != nil {
		return
	}
	_ = st.flushLocked()
}

type serverBody struct {
	st     *memStream
	mu     sync.Mutex
	closed bool
}

func (b *serverBody) Read(p []byte) (int, error) {
	b.mu.Lock()
	c := b.closed
	b.mu.Unlock()
	if c {
		return 0, http.ErrBodyReadAfterClose
	}
	return b.st.reqPipe.Read(p)
}

func (b *serverBody) Close() error {
	b.mu.Lock()
	b.closed = true
	b.mu.Unlock()
	return nil
}

type clientBody struct {
	st *memStream
}

func (b *clientBody) Read(p []byte) (int, error) {
	n, err := b.st.resPipe.Read(p)
	if err == io.EOF {
		// like net/http's transports: trailers are filled in by the goroutine
		// that reads the body, at EOF (never concurrently with a reader)
		b.st.mu.Lock()
		for k, v := range b.st.finalTrailer {
			b.st.trailer[k] = v
		}
		b.st.finalTrailer = nil
		b.st.mu.Unlock()
		b.st.ex.mu.Lock()
		b.st.ex.bodyEOF = true
		b.st.ex.mu.Unlock()
		b.st.ex.finOnce.Do(func() { close(b.st.ex.finished) })
	}
	return n, err
}

func (b *clientBody) Close() error {
	st := b.st
	st.ex.mu.Lock()
	st.ex.bodyCloses++
	eof := st.ex.bodyEOF
	st.ex.mu.Unlock()
	if !eof {
		// closing early resets the stream
		st.abort(errors.New("http: read on closed response body"), resetError{"CANCEL"})
	}
	st.ex.finOnce.Do(func() { close(st.ex.finished) })
	return nil
}
