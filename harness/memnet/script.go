package memnet

import (
	"bytes"
	"context"
	"errors"
	"fmt"
	"io"
	"net/http"
	"net/textproto"
	"strings"
	"sync"
)

// ChunkReader delivers Data split at the given cut offsets (ascending,
// strictly inside the data), one piece per Read. If EOFWithLast is set the
// final piece is returned together with io.EOF; otherwise EOF (or EndErr)
// comes on a separate read.
type ChunkReader struct {
	Data        []byte
	Cuts        []int
	EOFWithLast bool
	EndErr      error // error that ends the stream (nil: io.EOF)
	pos         int
	idx         int
	Reads       int
}

func (c *ChunkReader) end() error {
	if c.EndErr != nil {
		return c.EndErr
	}
	return io.EOF
}

func (c *ChunkReader) Read(p []byte) (int, error) {
	c.Reads++
	if len(p) == 0 {
		return 0, nil
	}
	if c.pos >= len(c.Data) {
		return 0, c.end()
	}
	for c.idx < len(c.Cuts) && c.Cuts[c.idx] <= c.pos {
		c.idx++
	}
	limit := len(c.Data)
	if c.idx < len(c.Cuts) && c.Cuts[c.idx] < limit {
		limit = c.Cuts[c.idx]
	}
	n := copy(p, c.Data[c.pos:limit])
	c.pos += n
	if c.pos >= len(c.Data) && c.EOFWithLast {
		return n, c.end()
	}
	return n, nil
}

func (c *ChunkReader) Close() error { return nil }

// Script is a connect.HTTPClient that answers every request with a crafted
// response while draining (and recording) the request body.
type Script struct {
	Status     int
	Header     http.Header
	Body       io.Reader // response body (nil: empty)
	Trailer    http.Header
	ProtoMajor int
	DoErr      error // if set, Do fails with it
	// FailRequestAfter, if ≥0, makes the transport stop reading the request
	// body after that many bytes and close it (as a broken connection would).
	FailRequestAfter int
	KeepKeys         bool // do not canonicalise header keys

	mu         sync.Mutex
	ReqHeader  http.Header
	reqBody    bytes.Buffer
	reqDone    chan struct{}
	BodyCloses int
	Calls      int
	// RespContentLength, if > 0, is announced as the response's Content-Length
	// (whatever the body really holds).
	RespContentLength int64
}

func NewScript(status int, header http.Header, body io.Reader, trailer http.Header) *Script {
	return &Script{Status: status, Header: header, Body: body, Trailer: trailer, ProtoMajor: 2, FailRequestAfter: -1}
}

func (s *Script) ReqBody() []byte {
	s.mu.Lock()
	defer s.mu.Unlock()
	return append([]byte(nil), s.reqBody.Bytes()...)
}

// WaitRequest blocks until the request body has been fully consumed.
func (s *Script) WaitRequest() {
	s.mu.Lock()
	ch := s.reqDone
	s.mu.Unlock()
	if ch != nil {
		<-ch
	}
}

type scriptBody struct {
	s *Script
	r io.Reader
}

func (b *scriptBody) Read(p []byte) (int, error) {
	if b.r == nil {
		return 0, io.EOF
	}
	return b.r.Read(p)
}

func (b *scriptBody) Close() error {
	b.s.mu.Lock()
	b.s.BodyCloses++
	b.s.mu.Unlock()
	return nil
}

func (s *Script) Do(req *http.Request) (*http.Response, error) {
	s.mu.Lock()
	s.Calls++
	s.ReqHeader = req.Header.Clone()
	done := make(chan struct{})
	s.reqDone = done
	s.mu.Unlock()
	go func() {
		defer close(done)
		if req.Body == nil {
			return
		}
		buf := make([]byte, 32*1024)
		total := 0
		for {
			if s.FailRequestAfter >= 0 && total >= s.FailRequestAfter {
				_ = req.Body.Close()
				return
			}
			b := buf
			if s.FailRequestAfter >= 0 && s.FailRequestAfter-total < len(b) {
				b = b[:s.FailRequestAfter-total]
			}
			n, err := req.Body.Read(b)
			if n > 0 {
				s.mu.Lock()
				s.reqBody.Write(b[:n])
				s.mu.Unlock()
				total += n
			}
			if err != nil {
				_ = req.Body.Close()
				return
			}
		}
	}()
	if s.DoErr != nil {
		return nil, s.DoErr
	}
	major := s.ProtoMajor
	if major == 0 {
		major = 2
	}
	h := make(http.Header)
	for k, v := range s.Header {
		kk := k
		if !s.KeepKeys {
			kk = textproto.CanonicalMIMEHeaderKey(k)
		}
		h[kk] = append(h[kk], v...)
	}
	tr := make(http.Header)
	for k, v := range s.Trailer {
		kk := k
		if !s.KeepKeys {
			kk = textproto.CanonicalMIMEHeaderKey(k)
		}
		tr[kk] = append(tr[kk], v...)
	}
	return &http.Response{
		Status:        fmt.Sprintf("%d %s", s.Status, http.StatusText(s.Status)),
		StatusCode:    s.Status,
		Proto:         fmt.Sprintf("HTTP/%d.%d", major, 2-major),
		ProtoMajor:    major,
		ProtoMinor:    2 - major,
		Header:        h,
		Body:          &scriptBody{s: s, r: s.Body},
		ContentLength: s.respContentLength(h),
		Trailer:       tr,
		Request:       req,
	}, nil
}

// Recorded is the outcome of a synchronous Serve call.
type Recorded struct {
	Status      int
	Header      http.Header
	Body        []byte
	Trailer     http.Header
	Writes      int
	Flushes     int
	Panicked    bool
	PanicValue  any
	BodyClosed  bool
	HeaderAtEnd http.Header
}

type recorder struct {
	header  http.Header
	wrote   bool
	rec     *Recorded
	failAt  int // fail the k-th Write (1-based); 0: never
	failErr error
	failed  bool
}

func (r *recorder) Header() http.Header { return r.header }

func (r *recorder) freeze(code int) {
	if r.wrote {
		return
	}
	r.wrote = true
	r.rec.Status = code
	r.rec.Header = make(http.Header)
	for k, v := range r.header {
		if strings.HasPrefix(k, http.TrailerPrefix) {
			continue
		}
		r.rec.Header[k] = append([]string(nil), v...)
	}
}

func (r *recorder) WriteHeader(code int) {
	if code >= 100 && code < 200 {
		return
	}
	r.freeze(code)
}

func (r *recorder) Write(b []byte) (int, error) {
	r.freeze(200)
	r.rec.Writes++
	if r.failed || (r.failAt > 0 && r.rec.Writes >= r.failAt) {
		r.failed = true
		return 0, r.failErr
	}
	r.rec.Body = append(r.rec.Body, b...)
	return len(b), nil
}

func (r *recorder) Flush() {
	r.freeze(200)
	r.rec.Flushes++
}

type recBody struct {
	io.Reader
	rec *Recorded
}

func (b *recBody) Close() error { b.rec.BodyClosed = true; return nil }

// ServeOpts tunes Serve.
type ServeOpts struct {
	ProtoMajor  int   // default 2
	FailWriteAt int   // fail the k-th ResponseWriter.Write (1-based)
	FailErr     error // error for failed writes
	KeepKeys    bool
	Ctx         context.Context // request context (default: background)
	// ContentLength, if ≥ 0 and HaveContentLength is set, is announced like a
	// client with a fixed-size body would (Request.ContentLength + header).
	HaveContentLength bool
	ContentLength     int64
}

// Serve calls h.ServeHTTP synchronously with a crafted request.
func Serve(h http.Handler, method, path string, header http.Header, body io.Reader, o ServeOpts) (rec *Recorded) {
	rec = &Recorded{}
	major := o.ProtoMajor
	if major == 0 {
		major = 2
	}
	if body == nil {
		body = bytes.NewReader(nil)
	}
	req, err := http.NewRequest(method, "http://serve.test"+path, &recBody{Reader: body, rec: rec})
	if err != nil {
		// invalid method tokens cannot be constructed by NewRequest: build by hand
		req, _ = http.NewRequest("POST", "http://serve.test"+path, &recBody{Reader: body, rec: rec})
		req.Method = method
	}
	req.Header = make(http.Header)
	for k, v := range header {
		kk := k
		if !o.KeepKeys {
			kk = textproto.CanonicalMIMEHeaderKey(k)
		}
		req.Header[kk] = append(req.Header[kk], v...)
	}
	if o.Ctx != nil {
		req = req.WithContext(o.Ctx)
	}
	req.Proto = fmt.Sprintf("HTTP/%d.%d", major, map[int]int{1: 1, 2: 0, 3: 0, 0: 0}[major])
	req.ProtoMajor, req.ProtoMinor = major, map[int]int{1: 1, 2: 0, 3: 0}[major]
	req.ContentLength = -1
	if o.HaveContentLength {
		req.ContentLength = o.ContentLength
		req.Header.Set("Content-Length", fmt.Sprint(o.ContentLength))
	}
	req.RequestURI = path
	rw := &recorder{header: make(http.Header), rec: rec, failAt: o.FailWriteAt, failErr: o.FailErr}
	if rw.failErr == nil {
		rw.failErr = errors.New("serve: injected write failure")
	}
	func() {
		returned := false
		defer func() {
			if r := recover(); !returned {
				rec.Panicked, rec.PanicValue = true, r
			}
		}()
		h.ServeHTTP(rw, req)
		returned = true
	}()
	rw.freeze(200)
	declared := map[string]bool{}
	for _, line := range rec.Header["Trailer"] {
		for _, k := range strings.Split(line, ",") {
			declared[textproto.CanonicalMIMEHeaderKey(strings.TrimSpace(k))] = true
		}
	}
	rec.Trailer = make(http.Header)
	for k, v := range rw.header {
		switch {
		case strings.HasPrefix(k, http.TrailerPrefix):
			kk := strings.TrimPrefix(k, http.TrailerPrefix)
			rec.Trailer[kk] = append(rec.Trailer[kk], v...)
		case declared[k]:
			rec.Trailer[k] = append(rec.Trailer[k], v...)
		}
	}
	rec.HeaderAtEnd = rw.header.Clone()
	return rec
}

// respContentLength announces RespContentLength (if set) the way a server
// with a fixed-size body would: Response.ContentLength plus the header.
func (s *Script) respContentLength(h http.Header) int64 {
	if s.RespContentLength <= 0 {
		return -1
	}
	h.Set("Content-Length", fmt.Sprint(s.RespContentLength))
	return s.RespContentLength
}
