package memnet

import (
	"io"
	"sync"
)

// bufPipe is a buffered, bounded in-memory byte pipe. It uses sync.Cond so
// that blocked readers/writers are "durably blocked" inside synctest bubbles.
type bufPipe struct {
	mu    sync.Mutex
	cond  *sync.Cond
	buf   []byte
	cap   int    // max buffered bytes (<=0: unbounded)
	werr  error  // set when the writer closed: returned to readers once drained
	rerr  error  // set when the reader closed / pipe broken: returned to writers (and readers, immediately)
	onEOF func() // called (once, under lock released) just before a reader observes the writer's close
	total int64
}

func newBufPipe(capacity int) *bufPipe {
	p := &bufPipe{cap: capacity}
	p.cond = sync.NewCond(&p.mu)
	return p
}

func (p *bufPipe) Read(b []byte) (int, error) {
	p.mu.Lock()
	defer p.mu.Unlock()
	for {
		if p.rerr != nil {
			return 0, p.rerr
		}
		if len(p.buf) > 0 {
			n := copy(b, p.buf)
			p.buf = p.buf[n:]
			p.cond.Broadcast()
			return n, nil
		}
		if p.werr != nil {
			return 0, p.werr
		}
		if len(b) == 0 {
			return 0, nil
		}
		p.cond.Wait()
	}
}

func (p *bufPipe) Write(b []byte) (int, error) {
	p.mu.Lock()
	defer p.mu.Unlock()
	written := 0
	for len(b) > 0 {
		if p.rerr != nil {
			return written, p.rerr
		}
		if p.werr != nil {
			return written, io.ErrClosedPipe
		}
		room := len(b)
		if p.cap > 0 {
			room = p.cap - len(p.buf)
			if room <= 0 {
				p.cond.Wait()
				continue
			}
			if room > len(b) {
				room = len(b)
			}
		}
		p.buf = append(p.buf, b[:room]...)
		p.total += int64(room)
		b = b[room:]
		written += room
		p.cond.Broadcast()
	}
	if p.rerr != nil {
		return written, p.rerr
	}
	return written, nil
}

// CloseWrite ends the stream: readers see err (io.EOF if nil) after draining.
func (p *bufPipe) CloseWrite(err error) {
	if err == nil {
		err = io.EOF
	}
	p.mu.Lock()
	if p.werr == nil {
		p.werr = err
	}
	p.cond.Broadcast()
	p.mu.Unlock()
}

// Break aborts the pipe in both directions: pending and future reads and
// writes fail with err immediately (buffered data is dropped).
func (p *bufPipe) Break(err error) {
	p.mu.Lock()
	if p.rerr == nil {
		p.rerr = err
	}
	p.cond.Broadcast()
	p.mu.Unlock()
}

func (p *bufPipe) Buffered() int {
	p.mu.Lock()
	defer p.mu.Unlock()
	return len(p.buf)
}
