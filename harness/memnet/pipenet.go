package memnet

import (
	"context"
	"errors"
	"net"
	"net/http"
	"sync"
	"time"
)

// PipeNet runs the real net/http server and transport (HTTP/1.1 or
// unencrypted HTTP/2) over in-memory net.Pipe connections. It is meant to be
// used inside a testing/synctest bubble, where time is virtual.
type PipeNet struct {
	Server    *http.Server
	Transport *http.Transport
	Client    *http.Client
	ln        *pipeListener
	mu        sync.Mutex
	conns     []net.Conn
}

type pipeListener struct {
	ch     chan net.Conn
	closed chan struct{}
	once   sync.Once
}

func (l *pipeListener) Accept() (net.Conn, error) {
	select {
	case c := <-l.ch:
		return c, nil
	case <-l.closed:
		return nil, net.ErrClosed
	}
}
func (l *pipeListener) Close() error   { l.once.Do(func() { close(l.closed) }); return nil }
func (l *pipeListener) Addr() net.Addr { return pipeAddr{} }

type pipeAddr struct{}

func (pipeAddr) Network() string { return "pipe" }
func (pipeAddr) String() string  { return "pipe" }

// NewPipeNet starts a server for h. If h2 is true both ends speak
// unencrypted HTTP/2 (prior knowledge), otherwise HTTP/1.1.
func NewPipeNet(h http.Handler, h2 bool) *PipeNet {
	p := &PipeNet{ln: &pipeListener{ch: make(chan net.Conn), closed: make(chan struct{})}}
	sp, cp := new(http.Protocols), new(http.Protocols)
	if h2 {
		sp.SetUnencryptedHTTP2(true)
		cp.SetUnencryptedHTTP2(true)
	} else {
		sp.SetHTTP1(true)
		cp.SetHTTP1(true)
	}
	p.Server = &http.Server{Handler: h, Protocols: sp}
	p.Transport = &http.Transport{
		Protocols:          cp,
		DisableCompression: true,
		DialContext: func(ctx context.Context, network, addr string) (net.Conn, error) {
			c1, c2 := net.Pipe()
			select {
			case p.ln.ch <- c2:
				p.mu.Lock()
				p.conns = append(p.conns, c1, c2)
				p.mu.Unlock()
				return c1, nil
			case <-p.ln.closed:
				return nil, errors.New("pipenet: listener closed")
			case <-ctx.Done():
				return nil, ctx.Err()
			}
		},
	}
	p.Client = &http.Client{Transport: p.Transport}
	go func() { _ = p.Server.Serve(p.ln) }()
	return p
}

// Close tears everything down; inside a bubble it also lets net/http's
// own timers run out (virtual time).
func (p *PipeNet) Close() {
	p.Transport.CloseIdleConnections()
	_ = p.Server.Close()
	_ = p.ln.Close()
	p.mu.Lock()
	for _, c := range p.conns {
		_ = c.Close()
	}
	p.mu.Unlock()
	time.Sleep(5 * time.Second)
}
