module github.com/bufbuild/connect-go/verif

go 1.26

require (
	github.com/bufbuild/connect-go v0.0.0
	google.golang.org/protobuf v1.28.0
	pgregory.net/rapid v1.3.0
)

replace github.com/bufbuild/connect-go => /repo
