#!/usr/bin/env python3
"""usage: addjob.py <ID> '<job json>'  — appends a job to CHECKS[ID] and rewrites checks_table.py"""
import json, sys, pprint
sys.path.insert(0, "/verif")
from checks_table import CHECKS
pid, job = sys.argv[1], json.loads(sys.argv[2])
CHECKS[pid]["jobs"] = [j for j in CHECKS[pid]["jobs"] if not (j.get("fuzz") and j.get("fuzz") == job.get("fuzz") and j["pkg"] == job["pkg"])]
CHECKS[pid]["jobs"].append(job)
head = open("/verif/checks_table.py").read().split("CHECKS = ")[0]
open("/verif/checks_table.py", "w").write(head + "CHECKS = " + pprint.pformat(CHECKS, indent=1, width=160, sort_dicts=False) + "\n")
print("ok", pid, len(CHECKS[pid]["jobs"]))
